#!/bin/bash
# tools/runall.sh <quick|thorough> "<seeds>" [ids...]  - runs every registered check at the given seeds, prints one line each
cd "$(dirname "$0")/.." || exit 2
tier=${1:-quick}; seeds=${2:-1}; shift 2
ids=${@:-$(/venv/bin/python -c "import json; print(' '.join(c['property_id'] for c in json.load(open('MANIFEST.json'))['checks']))")}
bad=0
for s in $seeds; do
  for id in $ids; do
    out=$(VERIF_SEED=$s ./check $id $tier 2>&1); rc=$?
    echo "seed=$s rc=$rc $(echo "$out" | grep -E "^$id " | tail -1)"
    if [ $rc -ne 0 ]; then bad=1; echo "$out" | tail -15; fi
  done
done
exit $bad
