#!/venv/bin/python
"""tools/linecov.py [examples-per-property] [ID ...]
Development aid (not a registered check): runs a few hundred generated cases of every property module in ONE process with
sys.monitoring line events enabled for /repo/torchtt/*.py and prints, per file, the executable lines never executed.
Used to find library code the generators do not reach."""
import os
import sys
import types
import warnings

warnings.simplefilter("ignore")
VERIF = os.path.dirname(os.path.dirname(os.path.abspath(__file__)))
sys.path.insert(0, VERIF)
os.environ.setdefault("OMP_NUM_THREADS", "2")

from vt import core  # noqa

REPO_PKG = os.path.realpath(os.path.join(core.REPO, "torchtt"))
covered = {}

TOOL = sys.monitoring.COVERAGE_ID
sys.monitoring.use_tool_id(TOOL, "vt-linecov")


def on_line(code, line):
    fn = code.co_filename
    if fn.startswith(REPO_PKG):
        covered.setdefault(fn, set()).add(line)
    return sys.monitoring.DISABLE


sys.monitoring.register_callback(TOOL, sys.monitoring.events.LINE, on_line)
sys.monitoring.set_events(TOOL, sys.monitoring.events.LINE)


def executable_lines(path):
    src = open(path).read()
    code = compile(src, path, "exec")
    lines = set()

    def walk(c):
        for _, _, ln in c.co_lines():
            if ln is not None:
                lines.add(ln)
        for k in c.co_consts:
            if isinstance(k, types.CodeType):
                walk(k)
    walk(code)
    return lines


def main():
    n = int(sys.argv[1]) if len(sys.argv) > 1 and sys.argv[1].isdigit() else 300
    ids = [a.upper() for a in sys.argv[2:]] or ["C%02d" % i for i in range(1, 21) if i != 17]
    import importlib
    from hypothesis import given, settings, HealthCheck, seed
    T = core.tt()
    for pid in ids:
        prop = importlib.import_module("vt.props.%s" % pid.lower())
        cnt = [0]

        @seed(12345)
        @settings(max_examples=n, database=None, deadline=None, suppress_health_check=list(HealthCheck))
        @given(prop.strategy("quick"))
        def t(case):
            cnt[0] += 1
            try:
                prop.execute(case)
            except core.LibraryException:
                pass
        try:
            t()
        except Exception as e:  # noqa
            print("!!", pid, type(e).__name__, str(e)[:200])
        print("ran", pid, cnt[0], file=sys.stderr)
    tot_e = tot_c = 0
    for fname in sorted(os.listdir(REPO_PKG)):
        if not fname.endswith(".py") or fname in ("_torchtt.py",):
            continue
        path = os.path.join(REPO_PKG, fname)
        ex = executable_lines(path)
        cov = covered.get(path, set()) & ex
        miss = sorted(ex - cov)
        tot_e += len(ex)
        tot_c += len(cov)
        # compress into ranges
        rng = []
        for ln in miss:
            if rng and ln == rng[-1][1] + 1:
                rng[-1][1] = ln
            else:
                rng.append([ln, ln])
        print("%-24s %4d/%4d executable lines covered; uncovered: %s" % (
            fname, len(cov), len(ex), ", ".join("%d-%d" % (a, b) if a != b else str(a) for a, b in rng)))
    print("TOTAL %d/%d (%.1f%%)" % (tot_c, tot_e, 100.0 * tot_c / max(tot_e, 1)))


if __name__ == "__main__":
    main()
