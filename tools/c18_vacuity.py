import sys, os, collections
sys.path.insert(0,'/verif')
os.environ.setdefault('VERIF_REPO','/repo')
from vt.props import c18
from vt import core
from hypothesis import given, settings, seed, HealthCheck
ok=collections.Counter(); tot=collections.Counter(); err={}
import warnings; warnings.filterwarnings('ignore')
@seed(5)
@settings(max_examples=6000, database=None, deadline=None, suppress_health_check=list(HealthCheck))
@given(c18.strategy('quick'))
def run(case):
    T=core.tt()
    fn,_=c18.CATALOG[case['entry']]
    v,_,_=fn(T,case)
    tot[case['entry']]+=1
    try:
        core.lib(v); ok[case['entry']]+=1
    except core.LibraryException as e:
        err.setdefault(case['entry'],collections.Counter())[e.bucket]+=1
run()
for n in sorted(tot, key=lambda n: ok[n]/tot[n]):
    if ok[n]/tot[n] < 0.6: print(n, ok[n], tot[n], dict(err.get(n,{})))
print(len(tot), 'entries;', len(c18.CATALOG))
