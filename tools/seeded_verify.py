#!/venv/bin/python
"""tools/seeded_verify.py <ID> <dir-with-SEEDED> [--props C01,C02] [--name suffix]
Confirms a seeded change produced by an independent sub-agent and records it under /verif/seeded/<ID>[-suffix]/ :
  1. fresh scratch worktree of /repo HEAD (under /tmp, removed at the end);
  2. the demonstration passes (exit 0) on the unchanged tree and fails (exit 1) with the patch applied;
  3. the repository's own test-suite still passes with the patch;
  4. runs the listed properties' quick checks against the patched scratch tree (VERIF_REPO) and records which catch it.
"""
import argparse
import json
import os
import re
import shutil
import subprocess
import sys
import tempfile
import time

VERIF = os.path.dirname(os.path.dirname(os.path.abspath(__file__)))


def sh(cmd, **kw):
    return subprocess.run(cmd, capture_output=True, text=True, **kw)


def main():
    ap = argparse.ArgumentParser()
    ap.add_argument("id")
    ap.add_argument("src")
    ap.add_argument("--props", default="")
    ap.add_argument("--name", default="")
    ap.add_argument("--skip-suite", action="store_true")
    a = ap.parse_args()
    pid = a.id.upper()
    seeded = os.path.join(a.src, "SEEDED")
    patch = open(os.path.join(seeded, "patch.diff")).read()
    demo = open(os.path.join(seeded, "demo.py")).read()
    notes = open(os.path.join(seeded, "notes.md")).read() if os.path.exists(os.path.join(seeded, "notes.md")) else ""
    # make the demonstration location independent
    demo = re.sub(r"(['\"])/tmp/w[t23456789]_[A-Za-z0-9_]+\1", "_TD", demo)
    demo = re.sub(r"(['\"])/tmp/w[t23456789]_[A-Za-z0-9_]+/", r"_TD + \1/", demo)
    demo = "import os as _os\n_TD = _os.environ.get('TORCHTT_DIR', '/repo')\n" + demo
    build_sh = os.path.join(seeded, "build.sh")
    scratch = tempfile.mkdtemp(prefix="vt_seed_")
    os.rmdir(scratch)
    meta = {"property": pid, "ran": []}
    try:
        r = sh(["git", "-C", "/repo", "worktree", "add", "-q", "--detach", scratch, "HEAD"])
        assert r.returncode == 0, r.stderr
        dpath = os.path.join(scratch, "_demo.py")
        open(dpath, "w").write(demo)
        env = dict(os.environ, TORCHTT_DIR=scratch, PYTHONPATH=scratch)
        def maybe_build():
            if os.path.exists(build_sh):
                rb = sh(["bash", build_sh], env=dict(os.environ, TORCHTT_DIR=scratch))
                if rb.returncode != 0:
                    print("build.sh failed:", rb.stderr[-800:])
        maybe_build()
        r0 = sh(["/venv/bin/python", dpath], cwd=scratch, env=env)
        meta["demo_unchanged_rc"] = r0.returncode
        ppath = os.path.join(scratch, "_patch.diff")
        open(ppath, "w").write(patch)
        ra = sh(["git", "-C", scratch, "apply", ppath])
        if ra.returncode != 0:
            print("PATCH DOES NOT APPLY:", ra.stderr)
            return 2
        maybe_build()
        r1 = sh(["/venv/bin/python", dpath], cwd=scratch, env=env)
        meta["demo_patched_rc"] = r1.returncode
        meta["demo_patched_output"] = (r1.stdout + r1.stderr)[-1500:]
        print("demo: unchanged rc=%d, patched rc=%d" % (r0.returncode, r1.returncode))
        if r0.returncode != 0:
            print("demo output on unchanged tree:\n", (r0.stdout + r0.stderr)[-1500:])
        if not a.skip_suite:
            t0 = time.time()
            rs = sh(["/venv/bin/python", "-m", "pytest", "-q", "-p", "no:cacheprovider", "--timeout=900", "tests"], cwd=scratch, env=dict(os.environ, OMP_NUM_THREADS="2", MKL_NUM_THREADS="2"))
            line = [l for l in rs.stdout.splitlines() if "passed" in l or "failed" in l or "error" in l][-1:]
            meta["suite_with_patch"] = line[0] if line else rs.stdout[-300:]
            print("suite with patch: %s (%.0fs)" % (meta["suite_with_patch"], time.time() - t0))
        props = [p for p in a.props.split(",") if p] or [pid]
        caught_by = {}
        for p in props:
            env2 = dict(os.environ, VERIF_REPO=scratch, VERIF_EVIDENCE_DIR=os.path.join(scratch, "_ev"), VERIF_REPLAY_DIR=os.path.join(scratch, "_rp"))
            t0 = time.time()
            rc = sh([os.path.join(VERIF, "check"), p, "quick"], env=env2)
            clause = [l for l in rc.stdout.splitlines() if l.startswith("--- violated")]
            caught_by[p] = {"rc": rc.returncode, "clause": clause[:1], "seconds": round(time.time() - t0)}
            print("check %s quick on patched tree: rc=%d %s (%.0fs)" % (p, rc.returncode, clause[:1], time.time() - t0))
            if rc.returncode == 2:
                print(rc.stdout[-1500:])
            meta["ran"].append("VERIF_REPO=<scratch worktree with patch> ./check %s quick -> rc %d" % (p, rc.returncode))
        meta["caught_by"] = caught_by
        ok = r0.returncode == 0 and r1.returncode == 1 and (a.skip_suite or ("failed" not in meta.get("suite_with_patch", "") and "error" not in meta.get("suite_with_patch", "")))
        meta["confirmed"] = bool(ok)
        meta["needs_to_manifest"] = notes.strip()
        if ok:
            out = os.path.join(VERIF, "seeded", pid + ("-" + a.name if a.name else ""))
            os.makedirs(out, exist_ok=True)
            open(os.path.join(out, "patch.diff"), "w").write(patch)
            open(os.path.join(out, "demo.py"), "w").write(demo)
            if os.path.exists(build_sh):
                shutil.copy(build_sh, os.path.join(out, "build.sh"))
            json.dump(meta, open(os.path.join(out, "meta.json"), "w"), indent=1)
            print("kept as", out)
        else:
            print("NOT CONFIRMED - not kept")
        return 0 if ok else 1
    finally:
        sh(["git", "-C", "/repo", "worktree", "remove", "--force", scratch])
        shutil.rmtree(scratch, ignore_errors=True)


if __name__ == "__main__":
    sys.exit(main())
