#!/bin/bash
# tools/seeded_run.sh <seeded-dir-name> <tier> <ID> [ID...]  - applies seeded/<name>/patch.diff to a scratch worktree of /repo HEAD,
# runs the given checks against it (VERIF_REPO), prints rc and violated clause, removes the worktree.
name=$1; tier=$2; shift 2
S=$(mktemp -u /tmp/vt_seedrun_XXXXXX)
git -C /repo worktree add -q --detach $S HEAD || exit 2
git -C $S apply /verif/seeded/$name/patch.diff || { echo "patch does not apply"; git -C /repo worktree remove --force $S; exit 2; }
for id in "$@"; do
  out=$(VERIF_REPO=$S VERIF_EVIDENCE_DIR=$S/_ev VERIF_REPLAY_DIR=$S/_rp /verif/check $id $tier 2>&1); rc=$?
  echo "seeded/$name vs $id $tier: rc=$rc $(echo "$out" | grep -E '^--- violated' | head -1)"
  [ $rc -eq 2 ] && echo "$out" | tail -5
done
git -C /repo worktree remove --force $S; rm -rf $S
