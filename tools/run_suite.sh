#!/bin/bash
# Runs the repository's pinned test suite (guard off; there are no hooks) and prints the summary line.
cd "${1:-/repo}" && /venv/bin/python -m pytest -q -p no:cacheprovider --timeout=900 --continue-on-collection-errors 2>&1 | grep -E "passed|failed|error" | tail -5
