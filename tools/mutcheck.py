#!/venv/bin/python
"""Sensitivity check (development tool, not a registered check).
  tools/mutcheck.py [name-substring ...]
For every mutant in mutants/mutants.json (optionally filtered): copy /repo's sources to a scratch dir under /tmp,
apply the textual replacement, run the listed properties' quick checks with VERIF_REPO=<scratch>, report
caught / MISSED, delete the scratch dir. Evidence and replays of these runs go to the scratch dir."""
import json, os, shutil, subprocess, sys, tempfile, time

VERIF = os.path.dirname(os.path.dirname(os.path.abspath(__file__)))


def main():
    muts = json.load(open(os.path.join(VERIF, "mutants", "mutants.json")))
    filt = sys.argv[1:]
    results = []
    for m in muts:
        if filt and not any(f in m["name"] or f in m["props"] for f in filt):
            continue
        scratch = tempfile.mkdtemp(prefix="vt_mut_")
        try:
            shutil.copytree("/repo/torchtt", os.path.join(scratch, "torchtt"))
            shutil.copytree("/repo/cpp", os.path.join(scratch, "cpp"))
            path = os.path.join(scratch, m["file"])
            src = open(path).read()
            cnt = src.count(m["old"])
            if cnt < 1 or (cnt != 1 and not m.get("all")):
                print("MUTANT-ERROR %s: pattern occurs %d times" % (m["name"], cnt))
                results.append((m["name"], "pattern-error"))
                continue
            open(path, "w").write(src.replace(m["old"], m["new"]))
            for pid in m["props"]:
                env = dict(os.environ, VERIF_REPO=scratch, VERIF_EVIDENCE_DIR=os.path.join(scratch, "ev"),
                           VERIF_REPLAY_DIR=os.path.join(scratch, "rp"))
                t0 = time.time()
                extra = m.get("args", [])
                p = subprocess.run([os.path.join(VERIF, "check"), pid, "quick"] + extra, env=env, capture_output=True, text=True)
                viol = [l for l in p.stdout.splitlines() if l.startswith("VIOLATION")]
                clause = [l for l in p.stdout.splitlines() if l.startswith("--- violated")]
                status = "caught" if p.returncode == 1 and viol else ("MISSED" if p.returncode == 0 else "rc=%d" % p.returncode)
                print("%-8s %-4s %-45s %5.0fs %s" % (status, pid, m["name"], time.time() - t0, clause[:1]))
                if status.startswith("rc="):
                    print(p.stdout[-1500:], p.stderr[-500:])
                results.append((m["name"] + ":" + pid, status))
        finally:
            shutil.rmtree(scratch, ignore_errors=True)
    missed = [r for r in results if r[1] != "caught"]
    print("%d mutant runs, %d not caught" % (len(results), len(missed)))
    for r in missed:
        print("  not caught:", r)


if __name__ == "__main__":
    main()
