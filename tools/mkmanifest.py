#!/venv/bin/python
"""Regenerates /verif/MANIFEST.json from the table below (kept valid at all times)."""
import json
import os

VERIF = os.path.dirname(os.path.dirname(os.path.abspath(__file__)))

TECH = "property-based testing (Hypothesis): generated inputs vs. dense reference oracle"

# id -> (technique, level text, level_note, design_ref)
CLAIMED = {
    "C01": ("property-based testing (Hypothesis): generated dense arrays in four constructed spectrum families (exact-rank, noise-saturating, exact ties, degenerate) vs. error/rank bounds",
            "Generated search over order/mode pattern/dtype/source/target/eps/rmax with inputs *constructed* to sit at the "
            "edge of every bond's allowance (flat noise tails) and exactly on the truncation threshold (integer spectra), "
            "checked against the stated error bound, rank bounds (rmax, unfolding dimensions, constructed unfolding rank), "
            "shape and dtype.",
            "Trusted: the checker's dense contraction; unfolding ranks known by construction. Exact ties are reached only "
            "through the constructed family.",
            "DESIGN.md 4/C01"),
    "C02": ("property-based testing (Hypothesis): generated TT objects built from cores (inflated, gauge-scrambled up to cond 1e6, rescaled, noise-saturating, ties, zero) vs. eps/rank/aliasing oracle",
            "Generated search over representation pathologies with true unfolding ranks known by construction; oracle = "
            "error bound w.r.t. the actual cores' float64 value plus a kappa-scaled roundoff term, rank monotonicity, "
            "rmax, constructed unfolding rank, operand bit-identity and storage disjointness.",
            "Trusted: checker's dense contraction; prod ||C_k||_F as bound of the orthogonalisation roundoff.",
            "DESIGN.md 4/C02"),
    "C03": ("property-based testing (Hypothesis): generated operand pairs/scalars vs. bit-exact dense reference model",
            "Generated search over operation x broadcasting alignment x scalar kind x structure x dtype with a bit-exact "
            "oracle for integer payloads (the outputs are polynomials in the core entries, so structural errors cannot "
            "hide in tolerances) and a roundoff-level oracle for Gaussian payloads; ranks and dtype checked against the "
            "documented structure. Absence is shown only on the generated cases.",
            "Trusted: torch matmul/reshape for the checker's own contraction; Hypothesis generation. Not covered: CUDA.",
            "DESIGN.md 4/C03"),
    "C04": ("property-based testing (Hypothesis): generated operator expressions vs. bit-exact dense tensordot reference",
            "Generated search over operator expressions with independent (mostly pairwise distinct) row/column/inner size "
            "lists, rank profiles, batch shapes and dtypes; bit-exact oracle on integer payloads so transposed or crossed "
            "contractions cannot hide; product ranks, result kind, shape metadata and dtype checked.",
            "Trusted: torch tensordot on the checker's dense contraction. Not covered: CUDA.",
            "DESIGN.md 4/C04"),
    "C07": ("property-based testing (Hypothesis): generated reductions (norm/sum/dot/bilinear) vs. dense reductions incl. result shape",
            "Generated search over routine x order (incl. 1) x operator/tensor x autograd state x every subset pattern of "
            "reduced modes x dtype, with exact oracle for integer payloads and a roundoff bound scaled by the "
            "absolute-value contraction otherwise; the shape of partial reductions is part of the oracle.",
            "Trusted: torch reductions on the checker's dense contraction.",
            "DESIGN.md 4/C07"),
    "C08": ("property-based testing (Hypothesis): grammar-generated index expressions vs. dense indexing (shape and bit-equal values)",
            "Grammar-based generation of index expressions (int/negative int, slices with steps in all bound spellings, "
            "None, leading/trailing Ellipsis, bare forms, operator pairs) and apply_mask index matrices; oracle is the "
            "identical expression on the dense array, comparing shape and bit-equal values.",
            "Trusted: torch indexing on the checker's dense contraction. Empty slices are not generated.",
            "DESIGN.md 4/C08"),
    "C09": ("property-based testing (Hypothesis): generated cat/pad/diag/mprod/to_ttm/conj/clone calls vs. dense torch operations, bit-exact",
            "Generated search over operation x axis/padding subset/fill value/mode list x structure x dtype with the "
            "corresponding dense torch operation (and a dense assembly of the operator block-padding rule) as oracle, "
            "bit-exact on integer payloads.",
            "Trusted: torch.cat/F.pad/diag/tensordot on the checker's dense contraction.",
            "DESIGN.md 4/C09"),
    "C19": ("property-based testing (Hypothesis): generated objects (cores / TT-SVD / round / strided views / conj views / grad) through save+load and copy operations, round-trip oracle",
            "Round-trip and copy-independence oracles over objects built in every way the statement names (numpy-int "
            "rank lists, non-contiguous and lazily conjugated core views, requires_grad cores), all four dtypes.",
            "Trusted: torch.equal, storage pointers, the checker's dense contraction. CPU only.",
            "DESIGN.md 4/C19"),
    "C05": ("model-based property testing (Hypothesis): generated histories of public operations over a pool of live objects, structural invariant on every registered TT object after every step; exhaustive length<=2 enumeration in the thorough tier",
            "Random operation histories (up to 30 steps, ~85 operation kinds incl. in-place set_core/reduce_dims and the "
            "iterative routines with pooled optional arguments) with every TT object created anywhere registered through a "
            "harness-side wrapper of TT.__init__; the well-formedness invariant (core dimensionality, rank chain, boundary "
            "ranks, R/N/M/shape/is_ttm vs cores, copy semantics of the properties, full() shape) is evaluated after each "
            "step. The thorough tier adds the complete enumeration of all length-1/2 programs over a fixed alphabet.",
            "Trusted: the registry sees objects only while they are alive (weak references). Scope bound order<=4, sizes<=4, ranks<=3.",
            "DESIGN.md 4/C05"),
    "C06": ("model-based property testing (Hypothesis): the C05 history generator with before/after snapshots of every live object around each operation (value, ranks, shape, dtype), aliasing chains through views, pooled optional arguments",
            "Same history generator; every live pool object is snapshotted before each operation and compared afterwards "
            "(bit-identical cores, else equal dense value, and equal ranks/shape/dtype), exempting only the receiver of a "
            "documented in-place operation; views produced by earlier steps are operands of later ones, optional "
            "initial-guess arguments are filled from the pool.",
            "Trusted: value-based notion of 'unchanged' as in the statement. Scope as C05.",
            "DESIGN.md 4/C06"),
    "C17": ("differential property-based testing (Hypothesis): C11/C12 generators run through the Python and the freshly compiled C++ backend in one process, both against the dense oracle and against each other, with crash journaling",
            "The extension is rebuilt from the working tree's cpp/ whenever it changes; each generated case runs both "
            "backends, checks the C12 residual / C11 product bound for each, their mutual agreement, that C++ accepts what "
            "Python accepts (a dead shard process is converted into a replay via a per-case journal) and that operands are "
            "untouched by the C++ call.",
            "Trusted: g++ -std=c++20 build of the repository's sources (its own recipe's -std=c++17 is rejected by the "
            "installed torch headers). If the build fails the check exits 2 (inconclusive).",
            "DESIGN.md 4/C17"),
    "C18": ("property-based testing (Hypothesis): catalogue of single-aspect invalidations of valid generated calls for every public entry point; must-raise (and documented-class) oracle with a valid twin executed alongside",
            "For ~90 (entry point x incompatibility class) catalogue entries a valid call is generated and broken in "
            "exactly one aspect known to have no dense counterpart; the invalid call must raise (hard) and, where the "
            "docstring's Raises covers it, with one of the library's error classes (typed); the valid twin runs in the same "
            "case so 'raises for another reason' is excluded.",
            "Trusted: the catalogue's claim that each mutation has no dense counterpart (each entry reviewed against the "
            "documented broadcasting rules). Not exhaustive over entry points' optional arguments.",
            "DESIGN.md 4/C18"),
    "C15": ("property-based testing (Hypothesis): grammar-generated scalar expressions over the differentiable TT ops, three-way gradient agreement (TT autograd / dense autograd / finite differences)",
            "Generated expression chains and terminals over all listed differentiable operations with a drawn subset of "
            "tracked leaves/cores (direct or grad.watch); oracle = dense autograd on the same leaf cores through the "
            "checker's contraction (1e-9), central finite differences (1e-6), equal values, and the grad.grad / "
            "grad.grad_list API returning the same tensors with core shapes.",
            "Trusted: torch.autograd on dense expressions. Depth limited to 2 chain ops + terminal; float64 real only.",
            "DESIGN.md 4/C15"),
    "C16": ("property-based testing (Hypothesis): generated base points with achievable minimal ranks and arbitrary z,w vs. an independent dense tangent-space projector built from unfolding SVDs",
            "Generated search over order/rank profile/operator-vs-tensor/z kind/f with a dense reference projector "
            "assembled by the checker; equality with the reference plus the projector laws (linearity, idempotence, "
            "self-adjointness, P(x)=x, orthogonal residual, rank bound) and riemannian_gradient = P(dense gradient).",
            "Trusted: torch SVD for the reference projector; minimality of x verified per case.",
            "DESIGN.md 4/C16"),
    "C14": ("property-based testing (Hypothesis): generated low-rank / smooth targets with small and non-uniform modes, monitored user callback (argument validity) and dense accuracy oracle",
            "Generated search over routine x target family x order x non-uniform modes (incl. modes < rank+kick) x eps x "
            "seed x start tensor; a monitor wrapped around the user function checks every argument it receives "
            "(index ranges / membership in the argument tensors), and the result is compared with the dense target "
            "(5 eps bound).",
            "Trusted: the checker's dense target arrays. 'All seeds' is sampled; kick/nswp at defaults.",
            "DESIGN.md 4/C14"),
    "C13": ("property-based testing (Hypothesis): generated x and positive y = c + z*z, all division forms/options/seeds, multiply-back (inverse) oracle on dense arrays",
            "Generated search over form x order x modes x ranks x eps x preconditioner x starting tensor x kick x seed with "
            "the inverse relation q*y = x evaluated densely (5*tol bound) and exact scalar division.",
            "Trusted: checker's dense contraction; y assembled with the library's + and * but evaluated from its actual cores.",
            "DESIGN.md 4/C13"),
    "C12": ("property-based testing (Hypothesis): generated well-conditioned TT systems (SPD / Laplacian / diagonally dominant) x solver options x seeds vs. dense residual bound",
            "Generated search over system class x order x modes x ranks x eps x preconditioner x local solver path x "
            "initial guess x internal seed x dtype (float64 / complex128) x trunc_norm x band_diagonal x operand scale (10^+-250); oracle = dense residual ||Ax-b|| <= 5 eps ||b|| computed by the checker.",
            "Trusted: checker's dense A and b. 'All seeds' is sampled; Python backend only.",
            "DESIGN.md 4/C12"),
    "C11": ("property-based testing (Hypothesis): generated compatible operand pairs, spectra, eps, internal seeds and initial guesses vs. dense product with 3*eps bound",
            "Generated search over routine x order (1-6) x mode/rank profile x spectrum (exact-rank / decaying) x eps "
            "decade x internal seed x user initial guess x dtype, oracle = dense product from the checker's contraction, "
            "bound 3 eps ||ref|| (calibrated worst 0.68) plus roundoff.",
            "Trusted: checker's dense product. 'All seeds' is sampled. Python backend only (C17 covers C++).",
            "DESIGN.md 4/C11"),
    "C10": ("property-based testing (Hypothesis): generated ordered factorisations / permutations / QTT shapes on (scrambled, complex) sources vs. dense reshape/permute with eps-scaled bound",
            "Generated search over every ordered factorisation/merge of the element count with inserted/removed singleton "
            "modes, all permutations up to order 6, QTT shapes and round trips, on real/complex, optionally gauge-scrambled "
            "sources; oracle = dense reshape/permute, exact requested mode sizes, error <= 4 eps ||x|| + roundoff term.",
            "Trusted: torch.reshape/permute on the checker's dense contraction; tensor to_qtt is bounded with the "
            "prod||C_k||_F-scaled eps term (cores are truncated in isolation).",
            "DESIGN.md 4/C10"),
    "C20": ("property-based testing (Hypothesis): generated layer configurations and batched inputs vs. dense affine map, autograd and finite-difference gradients",
            "Generated search over size_in/size_out/rank lists/dtype/initialiser/batch shape with the dense affine map "
            "built from the layer's own cores as oracle for the forward value, parameter registration, and gradients "
            "(dense autograd + central finite differences).",
            "Trusted: torch autograd on the checker's dense expression; the Glorot/He variance is not checked (only registration and the map).",
            "DESIGN.md 4/C20"),
}

NOT_YET = {}


def main():
    props = [json.loads(l) for l in open(os.path.join(VERIF, "properties.jsonl"))]
    checks = []
    na = []
    for p in props:
        pid = p["id"]
        if pid in CLAIMED:
            tech, text, note, ref = CLAIMED[pid]
            checks.append({
                "property_id": pid,
                "quick_cmd": "./check %s quick" % pid,
                "thorough_cmd": "./check %s thorough" % pid,
                "evidence_file": "/verif/evidence/%s.json" % pid,
                "replay_cmd_template": "./check %s quick --replay {path}" % pid,
                "engine": "vt",
                "level_claimed": {"category": "exploration", "text": text, "design_ref": ref},
                "level_note": note,
                "technique": tech,
            })
        else:
            na.append({"property_id": pid,
                       "reason": NOT_YET.get(pid, "check not built yet in this session (planned, see DESIGN.md section 4); "
                                                  "not a limitation of the technique")})
    man = {
        "version": 1,
        "setup_cmd": "/venv/bin/python -c 'import hypothesis' 2>/dev/null || /venv/bin/pip install --no-index "
                     "--find-links /opt/veriftools/wheels hypothesis; "
                     "test -d /verif/.deps/atheris || /venv/bin/pip install -q --no-index --find-links /opt/veriftools/wheels "
                     "--target /verif/.deps atheris >/dev/null 2>&1 || true; "
                     "/venv/bin/python -c 'import hypothesis, torch, numpy'",
        "hooks": {
            "guard": "TORCHTT_VERIF",
            "enable": "no source hooks are needed: every observation is made from outside (results, cores, version "
                      "counters, user callbacks, a harness-side wrapper of TT.__init__); checks import torchtt from "
                      "/repo's working tree",
            "baseline_off_cmd": "cd /repo && /venv/bin/python -m pytest -ra -q -p no:cacheprovider --timeout=900 "
                                "--continue-on-collection-errors",
            "source_commits": [],
            "add_only": True,
        },
        "engines": [{"name": "vt-fuzz", "path": "vt/fuzz.py", "serves_properties": ["C05", "C06", "C08", "C18"],
                     "kind_free_text": "optional thorough-tier stage: atheris/libFuzzer with a structured byte decoder per property "
                                       "and coverage feedback from torchtt/*; same oracle as the random tiers"},
                    {"name": "vt", "path": "vt/", "serves_properties": sorted(CLAIMED),
                     "kind_free_text": "Hypothesis-driven sharded property runner with dense reference oracles, "
                                       "shrinking to JSON replay files"}],
        "checks": checks,
        "not_applicable": na,
        "notes": "All checks run /venv/bin/python with /repo first on sys.path (torchtt is not installed in the venv). "
                 "VERIF_SEED seeds every shard (seed*1000003+shard). Exit 2 = harness error/inconclusive, never a VIOLATION. "
                 "known_findings.json lists recorded defects (status known) and repaired ones (status fixed, with the "
                 "'fixed: property=<id> <commit> <what>' line).",
    }
    with open(os.path.join(VERIF, "MANIFEST.json"), "w") as f:
        json.dump(man, f, indent=1)
    print("claimed:", sorted(CLAIMED), "not_applicable:", [x["property_id"] for x in na])


if __name__ == "__main__":
    main()
