"""Hypothesis strategies shared by the property modules. Every strategy yields plain JSON-able data."""
from hypothesis import strategies as st

SEED = st.integers(min_value=0, max_value=2 ** 31 - 1)

SIZES = (1, 2, 3, 4, 5, 7)


@st.composite
def modes(draw, dmin=1, dmax=5, sizes=SIZES, distinct_bias=0.7, maxnumel=4096):
    d = draw(st.integers(dmin, dmax))
    if d <= len(sizes) and draw(st.floats(0, 1)) < distinct_bias:
        N = list(draw(st.permutations(list(sizes))))[:d]
    else:
        N = draw(st.lists(st.sampled_from(sizes), min_size=d, max_size=d))
    # keep the dense reference small
    p = 1
    out = []
    for n in N:
        if p * n > maxnumel:
            n = 1
        p *= n
        out.append(n)
    return out


@st.composite
def ranks(draw, d, rmax=4, rank1_bias=0.15):
    if d == 1:
        return [1, 1]
    if draw(st.floats(0, 1)) < rank1_bias:
        return [1] * (d + 1)
    return [1] + draw(st.lists(st.integers(1, rmax), min_size=d - 1, max_size=d - 1)) + [1]


DTYPES_ALL = ("f64", "f32", "c128", "c64")


@st.composite
def tt_spec(draw, N=None, M=None, dmin=1, dmax=5, sizes=SIZES, rmax=4, dts=DTYPES_ALL, dt=None, mode=None,
            int_bias=0.7, ttm=False, amp=2, maxnumel=4096):
    if N is None:
        N = draw(modes(dmin, dmax, sizes, maxnumel=maxnumel))
    d = len(N)
    if ttm and M is None:
        M = draw(modes(d, d, sizes, maxnumel=maxnumel))
    R = draw(ranks(d, rmax))
    if dt is None:
        dt = draw(st.sampled_from(dts))
    if mode is None:
        mode = "int" if draw(st.floats(0, 1)) < int_bias else "gauss"
    spec = {"N": list(N), "R": R, "dt": dt, "mode": mode, "seed": draw(SEED), "amp": amp}
    if M is not None:
        spec["M"] = list(M)
    return spec


def scalar_value(kind_int=True):
    return st.sampled_from([0, 1, -1, 2, 3, -2] if kind_int else [0.0, 1.0, -1.0, 0.5, 2.0, -1.5, 3.0, 0.25, 0.3, -0.1, 1.0 / 3.0])


@st.composite
def scalar(draw, kinds):
    kind = draw(st.sampled_from(kinds))
    if kind in ("int", "npint", "t0d_i64"):
        v = draw(scalar_value(True))
    elif kind in ("npuint8", "t0d_u8"):
        v = abs(draw(scalar_value(True)))      # unsigned kinds: negating them in their own type wraps around
    elif kind == "complex":
        v = [draw(scalar_value(False)), draw(scalar_value(False))]
    else:
        v = draw(scalar_value(False))
    return {"kind": kind, "value": v}


def build_scalar(s, dt):
    """Materialise a scalar descriptor. Tensor scalars take the dtype of the TT operand."""
    import numpy as np
    import torch
    from vt.core import DT
    k, v = s["kind"], s["value"]
    if k == "int":
        return int(v)
    if k == "float":
        return float(v)
    if k == "npfloat64":
        return np.float64(v)
    if k == "npfloat32":
        return np.float32(v)
    if k == "npint":
        return np.int64(v)
    if k == "npuint8":
        return np.uint8(v)
    if k == "t0d_u8":
        return torch.tensor(int(v), dtype=torch.uint8)
    if k == "complex":
        return complex(v[0], v[1])
    if k == "t0d":
        return torch.tensor(v, dtype=DT[dt])
    if k == "t1":
        return torch.tensor([v], dtype=DT[dt])
    if k == "t0d_i64":          # 0-d integer tensor: does not take part in type promotion with a dimensioned float tensor
        return torch.tensor(int(v), dtype=torch.int64)
    if k == "t0d_other":        # 0-d real tensor of the *other* precision (same category: no promotion of the TT's dtype)
        return torch.tensor(float(v), dtype=torch.float32 if dt in ("f64", "c128") else torch.float64)
    raise ValueError(k)


def scalar_as_complex(s):
    k, v = s["kind"], s["value"]
    if k == "complex":
        return complex(v[0], v[1])
    return float(v)


def is_dyadic(s):
    """True if the scalar is exactly representable with a few bits (then integer payloads stay exact under +,-,*)."""
    import math
    vals = s["value"] if isinstance(s["value"], list) else [s["value"]]
    if s["kind"] == "t0d_other":
        return all(float(v) * 64 == math.floor(float(v) * 64) for v in vals)
    return all(float(v) * 64 == math.floor(float(v) * 64) for v in vals)


def scalar_exact_value(s, dt):
    """the value the library actually receives, as python float/complex (a float32 0-d tensor carries the rounded value)"""
    import torch
    if s["kind"] == "t0d_other" and dt in ("f64", "c128"):
        return float(torch.tensor(float(s["value"]), dtype=torch.float32))
    if s["kind"] == "npfloat32":
        import numpy as np
        return float(np.float32(s["value"]))
    return scalar_as_complex(s)


# ------------------------------------------------------------------------------------------------
# argument forms of integer (list) arguments: axis / dim / mode / shape parameters
# A non-plain form (torch-style negative value, numpy integers, a tuple for a list) has a dense counterpart, but the
# library documents python ints / lists only. The oracle is therefore accept-or-correct: the call may raise (clean
# rejection, any exception), but a returned object must equal the reference of the normalised argument.

INT_FORMS = ["plain"] * 6 + ["neg", "np", "tuple"]


def int_form(allowed=("neg", "np", "tuple")):
    return st.sampled_from([f for f in INT_FORMS if f == "plain" or f in allowed])


def apply_int_form(vals, form, d, scalar=False):
    """vals: python ints in [0, d). Returns the argument in the drawn form (a scalar if `scalar`)."""
    import numpy as np
    vals = list(vals)
    if form == "neg":
        vals = [v - d for v in vals]
    elif form == "np":
        vals = [np.int64(v) for v in vals]
    if scalar:
        return vals[0]
    return tuple(vals) if form == "tuple" else vals
