"""C05 - every reachable TT object is structurally well formed (histories of public operations)."""
from hypothesis import strategies as st

from vt import core, gen, machine
from vt.core import Checker

RULE = ("Model-based history generation: a program is a list of up to 30 public operations (constructors, algebra with TT and "
        "scalar operands, rounding, views, reductions, indexing, reshape/permute/QTT, diag/cat/pad/mprod, save/load, the "
        "iterative routines with and without pooled initial guesses, solvers, cross approximation, manifold routines, and "
        "the in-place set_core / reduce_dims / grad.watch) applied to a pool of live objects; operands are chosen by "
        "construction (first compatible pool object, else a synthesised partner). Scope: order<=4(+1 for results), sizes<=4, "
        "ranks<=3. A harness-side wrapper of TT.__init__ registers every TT object created anywhere. Invariant after every "
        "step on every live registered object: cores all 3-d or all 4-d, neighbouring ranks agree, boundary ranks 1, "
        "R/N/M/shape/is_ttm recomputed from the cores, properties return copies, one dtype, full().shape == M+N. Library "
        "exceptions on an operation are recorded, not violations. Non-trivial: an in-place operation or a pooled "
        "optional argument is followed by a further operation on the same object. Distinct = program signature.")
BUDGET = {"quick": 6400, "thorough": 96000}
FLOORS = {"quick": {"has_inplace": 600, "inplace_followed": 300, "derived_from_modified": 100, "optional_arg": 300}}
SHRINK = {"quick": True, "thorough": True}
ASSUMPTIONS = ["the empty TT (TT(None)) is outside the scope", "a library exception raised by an operation is recorded and "
               "belongs to C03-C14; the objects existing afterwards must still be well formed"]
MODE = "wellformed"
FUZZ = {"thorough": 24000}     # coverage-guided add-on stage (vt/fuzz.py): op programs decoded from libFuzzer bytes

WEIGHTED = []
for name in machine.OPS:
    w = 2
    if name in machine.INPLACE:
        w = 7
    elif name in machine.OPTIONAL_ARG:
        w = 3
    elif name in ("tt_div", "ediv", "amen_solve", "func_interp", "dmrg_cross", "riem_grad"):
        w = 1
    WEIGHTED += [name] * w


@st.composite
def op_strategy(draw):
    return {"op": draw(st.sampled_from(WEIGHTED)), "a": draw(st.integers(0, 15)), "b": draw(st.integers(0, 15)),
            "c": draw(st.integers(0, 15)), "p": draw(st.integers(0, 63)), "seed": draw(st.integers(0, 10 ** 6))}


@st.composite
def strategy_case(draw):
    init = [draw(gen.tt_spec(dmin=1, dmax=4, sizes=(1, 2, 3, 4), rmax=3, dt="f64", mode="gauss", maxnumel=256)),
            draw(gen.tt_spec(dmin=1, dmax=3, sizes=(1, 2, 3), rmax=2, dt="f64", mode="gauss", ttm=True, maxnumel=27)),
            draw(gen.tt_spec(dmin=2, dmax=4, sizes=(1, 1, 2, 3), rmax=3, dt="f64", mode="gauss", maxnumel=256))]
    n = draw(st.sampled_from([1, 2, 3, 5, 8, 12, 16, 20, 30]))
    drawn = draw(st.lists(op_strategy(), min_size=n, max_size=n))
    # every operation is followed, with probability 1/4, by an in-place modification of its result or of one of its
    # operands (even p selects a related receiver in the executor): parent/child and aliasing histories for every op kind
    ops = []
    for o in drawn:
        ops.append(o)
        if o["op"] not in machine.INPLACE and draw(st.integers(0, 3)) == 0:
            ops.append({"op": draw(st.sampled_from(["set_core", "set_core_newsize", "set_core_newsize", "reduce_dims", "reduce_dims_exclude"])),
                        "a": draw(st.integers(0, 15)), "b": 0, "c": 0, "p": 2 * draw(st.integers(0, 31)), "seed": draw(st.integers(0, 10 ** 6))})
    return {"init": init, "ops": ops[:40]}


def strategy(tier):
    return strategy_case()


def features(case):
    return {"ops": [o["op"] for o in case["ops"]], "nops": len(case["ops"])}


def execute(case, mode=None):
    T = core.tt()
    ck = Checker()
    m = machine.Machine(T, case, mode or MODE)
    m.run(ck)
    seen = set()
    for t in m.trace:
        nm = t.rstrip("!")
        if nm not in seen:
            seen.add(nm)
            ck.label("op:" + nm)
    if any(t.rstrip("!") in machine.INPLACE for t in m.trace):
        ck.label("has_inplace")
    for k in ("inplace_followed", "derived_from_modified", "optional_arg"):
        if m.stats[k] > 0:
            ck.label(k)
    if m.stats["lib_exceptions"]:
        ck.label("had_library_exception")
        ck.info["lib_exceptions"] = m.stats["lib_exceptions"]
    ck.label("len:%d" % (10 * (len(m.trace) // 10)))
    ck.nontrivial = m.stats["inplace_followed"] > 0 or m.stats["optional_arg"] > 0
    return ck.verdict()


ENUM_DOC = ("thorough tier: every program of length 1 and 2 over a fixed alphabet (each public operation of the machine with "
            "two fixed argument settings) from 3 fixed initial pools is executed (finite space enumerated completely); "
            "this is in addition to the random histories")


def enumerate_cases():
    import itertools
    inits = [
        [{"N": [2, 3], "R": [1, 2, 1], "dt": "f64", "mode": "gauss", "seed": 1},
         {"N": [2, 2], "M": [3, 2], "R": [1, 2, 1], "dt": "f64", "mode": "gauss", "seed": 2},
         {"N": [2, 1, 3], "R": [1, 2, 2, 1], "dt": "f64", "mode": "gauss", "seed": 3}],
        [{"N": [3], "R": [1, 1], "dt": "f64", "mode": "gauss", "seed": 4},
         {"N": [2], "M": [2], "R": [1, 1], "dt": "f64", "mode": "gauss", "seed": 5},
         {"N": [1, 2], "R": [1, 2, 1], "dt": "f64", "mode": "gauss", "seed": 6}],
        [{"N": [2, 2, 2], "R": [1, 2, 2, 1], "dt": "f64", "mode": "gauss", "seed": 7},
         {"N": [1, 3], "M": [1, 3], "R": [1, 1, 1], "dt": "f64", "mode": "gauss", "seed": 8},
         {"N": [4, 2], "R": [1, 3, 1], "dt": "f64", "mode": "gauss", "seed": 9}],
    ]
    alphabet = []
    for name in machine.OPS:
        alphabet.append({"op": name, "a": 0, "b": 1, "c": 2, "p": 1, "seed": 11})
        alphabet.append({"op": name, "a": 2, "b": 0, "c": 1, "p": 6, "seed": 12})
    cases = []
    for init in inits:
        for o1 in alphabet:
            cases.append({"init": init, "ops": [o1]})
        for o1, o2 in itertools.product(alphabet, repeat=2):
            cases.append({"init": init, "ops": [o1, o2]})
    return cases


def from_bytes(fdp):
    """Structured decoding of a libFuzzer byte string into a history program (coverage-guided stage, vt/fuzz.py)."""
    ci = fdp.ConsumeIntInRange

    def spec(dmin, dmax, sizes, rmax, ttm):
        d = ci(dmin, dmax)
        N = [sizes[ci(0, len(sizes) - 1)] for _ in range(d)]
        sp = {"N": N, "R": [1] + [ci(1, rmax) for _ in range(d - 1)] + [1], "dt": "f64", "mode": "gauss", "seed": ci(0, 1000), "amp": 2}
        if ttm:
            sp["M"] = [sizes[ci(0, len(sizes) - 1)] for _ in range(d)]
        return sp
    init = [spec(1, 4, (1, 2, 3, 4), 3, False), spec(1, 3, (1, 2, 3), 2, True), spec(2, 4, (1, 1, 2, 3), 3, False)]
    n = ci(1, 12)
    ops = [{"op": WEIGHTED[ci(0, len(WEIGHTED) - 1)], "a": ci(0, 15), "b": ci(0, 15), "c": ci(0, 15), "p": ci(0, 63),
            "seed": ci(0, 1000)} for _ in range(n)]
    return {"init": init, "ops": ops}
