"""C08 - indexing and apply_mask agree with dense indexing (values, positions and resulting shape)."""
import numpy as np
import torch
from hypothesis import strategies as st

from vt import core, gen
from vt.core import Checker, lib, dense, dense_abs, DT, UNIT, MANT, fro

RULE = ("Index expressions are generated from a grammar covering every mode of a tensor of order 1-5 (mode sizes 1-5, "
        "ranks 1-3, integer payload): int in [-n,n-1], non-empty slice with start/stop/step given as positive, negative "
        "or omitted bounds (length-1 and full slices included), None at any position, one leading or trailing Ellipsis "
        "standing for >=0 modes, bare int/slice/Ellipsis; for operators 2d entries as (row k, column k) int/int, "
        "slice/slice or None/None pairs; apply_mask with an int64 index matrix of M in 0..7 rows with repeats. Oracle: "
        "the same expression applied to the checker's dense contraction - identical shape and bit-equal values, 0-d for "
        "all-int. Non-trivial: >=2 index kinds, or a singleton mode / length-1 slice is hit. Distinct = structural signature.")
BUDGET = {"quick": 24000, "thorough": 600000}
FLOORS = {"quick": {"kind:none": 1000, "kind:ellipsis": 500, "len1_slice": 500, "singleton_mode": 1000, "operator": 1000,
                    "apply_mask": 1000, "M=1": 50, "bare": 300, "all_int": 300}}
FUZZ = {"thorough": 80000}     # coverage-guided add-on stage (vt/fuzz.py)
ASSUMPTIONS = ["slices are non-empty with step >= 1 (torch itself rejects negative steps); empty slices are not generated",
               "expressions the __getitem__ docstring rejects (short tuples without Ellipsis, Ellipsis in the middle, "
               "mixed int/slice operator pairs) belong to C18"]

SZ = (1, 2, 3, 4, 5)


@st.composite
def slice_for(draw, n):
    a = draw(st.integers(0, n - 1))
    b = draw(st.integers(a + 1, n))
    step = draw(st.sampled_from([None, 1, 1, 2, 3]))
    ra = draw(st.sampled_from(["pos", "neg", "none"]))
    rb = draw(st.sampled_from(["pos", "neg", "none"]))
    sa = a if ra == "pos" else (a - n if ra == "neg" else (None if a == 0 else a))
    if rb == "none" and b == n:
        sb = None
    elif rb == "neg" and b < n:
        sb = b - n
    else:
        sb = b
    return [sa, sb, step]


@st.composite
def strategy_case(draw):
    what = draw(st.sampled_from(["tensor", "tensor", "tensor", "operator", "mask"]))
    dt = draw(st.sampled_from(gen.DTYPES_ALL))
    if what == "mask":
        x = draw(gen.tt_spec(dmin=1, dmax=5, sizes=SZ, rmax=3, dt=dt, mode="int", maxnumel=2000))
        Mrows = draw(st.sampled_from([0, 1, 1, 2, 3, 5, 7]))
        rows = [[draw(st.integers(0, n - 1)) for n in x["N"]] for _ in range(Mrows)]
        if Mrows >= 2 and draw(st.booleans()):
            rows[-1] = list(rows[0])
        return {"what": what, "x": x, "rows": rows}
    if what == "operator":
        x = draw(gen.tt_spec(dmin=1, dmax=3, sizes=(1, 2, 3, 4), rmax=3, dt=dt, mode="int", ttm=True, maxnumel=40))
        d = len(x["N"])
        rows, cols = [], []
        for k in range(d):
            kind = draw(st.sampled_from(["int", "slice", "full"]))
            if kind == "int":
                rows.append({"k": "int", "v": draw(st.integers(-x["M"][k], x["M"][k] - 1))})
                cols.append({"k": "int", "v": draw(st.integers(-x["N"][k], x["N"][k] - 1))})
            elif kind == "slice":
                rows.append({"k": "slice", "v": draw(slice_for(x["M"][k]))})
                cols.append({"k": "slice", "v": draw(slice_for(x["N"][k]))})
            else:
                rows.append({"k": "slice", "v": [None, None, None]})
                cols.append({"k": "slice", "v": [None, None, None]})
        nn = draw(st.sampled_from([0, 0, 0, 1, 2]))
        for _ in range(nn):
            p = draw(st.integers(0, len(rows)))
            rows.insert(p, {"k": "none"})
            cols.insert(p, {"k": "none"})
        return {"what": what, "x": x, "expr": rows + cols, "form": "tuple"}
    x = draw(gen.tt_spec(dmin=1, dmax=5, sizes=SZ, rmax=3, dt=dt, mode="int", maxnumel=2000))
    d = len(x["N"])
    form = draw(st.sampled_from(["tuple"] * 8 + ["bare_ellipsis"] + (["bare_int", "bare_slice"] * 2 if d == 1 else [])))
    if form == "bare_ellipsis":
        return {"what": what, "x": x, "expr": [{"k": "ellipsis"}], "form": "bare"}
    if form == "bare_int":
        return {"what": what, "x": x, "expr": [{"k": "int", "v": draw(st.integers(-x["N"][0], x["N"][0] - 1))}], "form": "bare"}
    if form == "bare_slice":
        return {"what": what, "x": x, "expr": [{"k": "slice", "v": draw(slice_for(x["N"][0]))}], "form": "bare"}
    items = []
    for k in range(d):
        kind = draw(st.sampled_from(["int", "int", "slice", "slice", "full", "full"]))
        if kind == "int":
            items.append({"k": "int", "v": draw(st.integers(-x["N"][k], x["N"][k] - 1))})
        elif kind == "slice":
            items.append({"k": "slice", "v": draw(slice_for(x["N"][k]))})
        else:
            items.append({"k": "slice", "v": [None, None, None]})
    ell = draw(st.sampled_from(["no", "no", "lead", "trail"]))
    if ell == "lead":
        j = draw(st.integers(0, d))  # first j modes replaced by the Ellipsis
        items = [{"k": "ellipsis"}] + items[j:]
    elif ell == "trail":
        j = draw(st.integers(0, d))
        items = items[:d - j] + [{"k": "ellipsis"}]
    nn = draw(st.sampled_from([0, 0, 0, 1, 2, 3]))
    for _ in range(nn):
        lo = 1 if ell == "lead" else 0
        hi = len(items) - 1 if ell == "trail" else len(items)
        if hi < lo:
            break
        p = draw(st.integers(lo, hi))
        items.insert(p, {"k": "none"})
    return {"what": what, "x": x, "expr": items, "form": "tuple"}


def strategy(tier):
    return strategy_case()


def build_expr(case):
    out = []
    for it in case["expr"]:
        if it["k"] == "int":
            out.append(int(it["v"]))
        elif it["k"] == "slice":
            out.append(slice(*it["v"]))
        elif it["k"] == "none":
            out.append(None)
        elif it["k"] == "ellipsis":
            out.append(Ellipsis)
    if case["form"] == "bare":
        return out[0]
    return tuple(out)


def _slice_len(v, n):
    return len(range(*slice(*v).indices(n)))


def features(case):
    f = {"what": case["what"], "order": len(case["x"]["N"])}
    if "expr" in case:
        kinds = sorted({it["k"] for it in case["expr"]})
        f["kinds"] = "+".join(kinds)
        f["form"] = case["form"]
    if "rows" in case:
        f["M"] = len(case["rows"])
    return f


def execute(case):
    T = core.tt()
    ck = Checker()
    xs = case["x"]
    dt = xs["dt"]
    d = len(xs["N"])
    xc = core.make_cores(xs)
    x = T.TT(core.clone_cores(xc))
    xd, xa = dense(xc), dense_abs(xc)
    exact = float(xa.max()) < MANT[dt]
    ck.label("dt:" + dt, "order:%d" % d)
    big = any(r > 1 for r in xs["R"])

    if case["what"] == "mask":
        rows = case["rows"]
        Mr = len(rows)
        idx = torch.tensor(rows, dtype=torch.int64).reshape(Mr, d)
        # numpy index arrays of the usual integer dtypes index like int64 arrays in numpy (uint8 is NOT a mask there)
        form = ["tensor", "tensor", "list", "tuples", "np_int64", "np_uint8", "np_int16", "np_int32_view"][xs["seed"] % 8] if Mr > 0 else "tensor"
        if form == "list":          # the docstring declares `indices (list[list[int]])`
            got = lib(lambda: x.apply_mask([list(r) for r in rows]))
        elif form == "tuples":
            got = lib(lambda: x.apply_mask([tuple(r) for r in rows]))
        elif form.startswith("np_"):
            a = idx.numpy().astype({"np_int64": np.int64, "np_uint8": np.uint8, "np_int16": np.int16, "np_int32_view": np.int32}[form])
            if form == "np_int32_view":
                a = np.ascontiguousarray(a[::-1])[::-1]          # negative stride
            got = lib(lambda: x.apply_mask(a))
        else:
            got = lib(lambda: x.apply_mask(idx))
        ck.label("apply_mask", "M=%d" % Mr, "mask_form:" + form)
        ref = xd[tuple(idx[:, k] for k in range(d))] if Mr > 0 else xd.new_zeros([0])
        if ck.require(torch.is_tensor(got), "mask_type", "apply_mask returned %s" % type(got).__name__):
            if ck.require(list(got.shape) == [Mr], "mask_shape", "apply_mask with M=%d rows returned shape %s" % (Mr, list(got.shape))):
                ck.require(got.dtype == DT[dt], "mask_dtype", "dtype %s" % got.dtype)
                if exact:
                    ck.require(core.bit_equal(got, ref), "mask_value", "apply_mask values differ from dense gather")
                else:
                    ck.bound(fro(core.widen(got) - ref), 64 * d * UNIT[dt] * max(float(xa.max()) * max(Mr, 1) ** 0.5, 1e-300), "mask_value_roundoff")
        ck.nontrivial = big and Mr >= 1
        return ck.verdict()

    expr = build_expr(case)
    ttm = case["what"] == "operator"
    if ttm:
        ck.label("operator")
    kinds = {it["k"] for it in case["expr"]}
    for k in kinds:
        ck.label("kind:" + k)
    if case["form"] == "bare":
        ck.label("bare")
    # which modes are hit by what
    sizes = (xs["M"] + xs["N"]) if ttm else xs["N"]
    pos = 0
    len1 = False
    single = False
    neg = False
    step = False
    expanded = []
    nnone = sum(1 for it in case["expr"] if it["k"] == "none")
    for it in case["expr"]:
        if it["k"] == "ellipsis":
            fill = len(sizes) - (len(case["expr"]) - 1 - nnone)
            expanded += [{"k": "slice", "v": [None, None, None]}] * fill
        else:
            expanded.append(it)
    for it in expanded:
        if it["k"] == "none":
            continue
        n = sizes[pos]
        if it["k"] == "int":
            neg = neg or it["v"] < 0
        else:
            L = _slice_len(it["v"], n)
            if L == 1 and n > 1:
                len1 = True
            if n == 1:
                single = True
            if it["v"][2] not in (None, 1):
                step = True
        pos += 1
    if len1:
        ck.label("len1_slice")
    if single:
        ck.label("singleton_mode")
    if neg:
        ck.label("negative_int")
    if step:
        ck.label("step>1")
    all_int = all(it["k"] == "int" for it in expanded)
    if all_int:
        ck.label("all_int")

    ref = xd[expr]
    ref_abs = xa[expr]
    got = lib(lambda: x[expr])
    ck.nontrivial = len(kinds) >= 2 or len1 or single
    if all_int:
        if ck.require(torch.is_tensor(got) and got.dim() == 0, "scalar_result",
                      "all-int index returned %s" % (type(got).__name__ if not torch.is_tensor(got) else list(got.shape))):
            ck.require(got.dtype == DT[dt], "dtype", "dtype %s" % got.dtype)
            if exact:
                ck.require(core.bit_equal(got, ref), "value_exact", "x[%s] = %s, dense %s" % (expr, got, ref))
            else:
                ck.bound(abs(complex(got) - complex(ref)), 64 * d * UNIT[dt] * max(float(ref_abs), 1e-300), "value_roundoff")
        return ck.verdict()
    if not ck.require(isinstance(got, T.TT), "result_type",
                      "x[%s]: dense result has shape %s but the library returned %s" % (
                          expr, list(ref.shape), type(got).__name__ + (str(list(got.shape)) if torch.is_tensor(got) else ""))):
        return ck.verdict()
    if not ck.require(got.is_ttm == ttm, "result_kind", "is_ttm=%s" % got.is_ttm):
        return ck.verdict()
    g = dense(got.cores)
    meta = (list(got.M) + list(got.N)) if ttm else list(got.N)
    if not ck.require(list(g.shape) == list(ref.shape) and meta == list(ref.shape), "shape",
                      "x[%s]: result shape %s, dense indexing gives %s" % (expr, meta, list(ref.shape))):
        return ck.verdict()
    ck.require(all(c.dtype == DT[dt] for c in got.cores), "dtype", "dtype changed")
    if exact:
        ck.require(core.bit_equal(g, ref), "value_exact",
                   lambda: "x[%s] differs from dense indexing, max |diff| %g" % (expr, float((g - ref).abs().max())))
    else:
        ck.bound(fro(g - ref), 64 * d * UNIT[dt] * max(fro(ref_abs), 1e-300), "value_roundoff")
    return ck.verdict()


ENUM_DOC = ("thorough tier: for every tensor shape in {1,2,3}^d, d=1..3 (ranks 2), every index expression built from the "
            "per-mode alphabet {0, -1, :, 0:1, ::2} with no / one None at every position, and every leading/trailing "
            "Ellipsis replacing 0..d full slices, is executed (finite space enumerated completely)")


def enumerate_cases():
    import itertools
    syms = [{"k": "int", "v": 0}, {"k": "int", "v": -1}, {"k": "slice", "v": [None, None, None]},
            {"k": "slice", "v": [0, 1, None]}, {"k": "slice", "v": [None, None, 2]}]
    cases = []
    for d in (1, 2, 3):
        for N in itertools.product((1, 2, 3), repeat=d):
            x = {"N": list(N), "R": [1] + [2] * (d - 1) + [1], "dt": "f64", "mode": "int", "seed": 7 + sum(N), "amp": 2}
            for combo in itertools.product(syms, repeat=d):
                base = [dict(c) for c in combo]
                cases.append({"what": "tensor", "x": x, "expr": base, "form": "tuple"})
                for pos in range(d + 1):
                    e = [dict(c) for c in combo]
                    e.insert(pos, {"k": "none"})
                    cases.append({"what": "tensor", "x": x, "expr": e, "form": "tuple"})
                # Ellipsis standing for j leading / trailing modes (only where those modes carry a full slice)
                for j in range(0, d + 1):
                    if all(c["k"] == "slice" and c["v"] == [None, None, None] for c in combo[:j]):
                        cases.append({"what": "tensor", "x": x, "expr": [{"k": "ellipsis"}] + [dict(c) for c in combo[j:]], "form": "tuple"})
                    if all(c["k"] == "slice" and c["v"] == [None, None, None] for c in combo[d - j:]) or j == 0:
                        cases.append({"what": "tensor", "x": x, "expr": [dict(c) for c in combo[:d - j]] + [{"k": "ellipsis"}], "form": "tuple"})
    return cases


def from_bytes(fdp):
    """Structured decoding of a libFuzzer byte string into a case (coverage-guided stage, vt/fuzz.py)."""
    ci = fdp.ConsumeIntInRange
    dts = list(gen.DTYPES_ALL)
    what = ["tensor", "tensor", "operator", "mask"][ci(0, 3)]
    d = ci(1, 3 if what == "operator" else 5)
    N = [ci(1, 4 if what == "operator" else 5) for _ in range(d)]
    R = [1] + [ci(1, 3) for _ in range(d - 1)] + [1]
    x = {"N": N, "R": R, "dt": dts[ci(0, 3)], "mode": "int", "seed": ci(0, 2 ** 20), "amp": 2}

    def sl(n):
        a = ci(0, n - 1)
        b = ci(a + 1, n)
        step = [None, 1, 2, 3][ci(0, 3)]
        ra, rb = ci(0, 2), ci(0, 2)
        sa = a if ra == 0 else (a - n if ra == 1 else (None if a == 0 else a))
        sb = None if (rb == 2 and b == n) else (b - n if (rb == 1 and b < n) else b)
        return [sa, sb, step]
    if what == "mask":
        rows = [[ci(0, n - 1) for n in N] for _ in range(ci(0, 6))]
        return {"what": what, "x": x, "rows": rows}
    if what == "operator":
        M = [ci(1, 4) for _ in range(d)]
        x["M"] = M
        rows, cols = [], []
        for k in range(d):
            kind = ci(0, 2)
            if kind == 0:
                rows.append({"k": "int", "v": ci(-M[k], M[k] - 1)})
                cols.append({"k": "int", "v": ci(-N[k], N[k] - 1)})
            elif kind == 1:
                rows.append({"k": "slice", "v": sl(M[k])})
                cols.append({"k": "slice", "v": sl(N[k])})
            else:
                rows.append({"k": "slice", "v": [None, None, None]})
                cols.append({"k": "slice", "v": [None, None, None]})
        for _ in range(ci(0, 2)):
            pos = ci(0, len(rows))
            rows.insert(pos, {"k": "none"})
            cols.insert(pos, {"k": "none"})
        return {"what": what, "x": x, "expr": rows + cols, "form": "tuple"}
    items = []
    for k in range(d):
        kind = ci(0, 2)
        if kind == 0:
            items.append({"k": "int", "v": ci(-N[k], N[k] - 1)})
        elif kind == 1:
            items.append({"k": "slice", "v": sl(N[k])})
        else:
            items.append({"k": "slice", "v": [None, None, None]})
    ell = ci(0, 3)
    if ell == 1:
        items = [{"k": "ellipsis"}] + items[ci(0, d):]
    elif ell == 2:
        items = items[:d - ci(0, d)] + [{"k": "ellipsis"}]
    for _ in range(ci(0, 3)):
        lo = 1 if ell == 1 else 0
        hi = len(items) - 1 if ell == 2 else len(items)
        if hi < lo:
            break
        items.insert(ci(lo, hi), {"k": "none"})
    return {"what": what, "x": x, "expr": items, "form": "tuple"}
