"""C16 - Riemannian projection is an orthogonal projector; the AD gradient is its image."""
import numpy as np
import torch
from hypothesis import strategies as st

from vt import core, gen
from vt.core import Checker, lib, dense, fro

RULE = ("Base points x of order 2-5 (modes 2-4; operators with (m,n) in 1..3) with a rank profile drawn and clipped to "
        "the achievable set (r_k <= r_{k-1} n_k, <= n_{k+1} r_{k+1}, <= 3), Gaussian cores, minimality re-checked by SVD of "
        "every unfolding; z, w Gaussian TTs of arbitrary ranks 1-4 (also x itself and tangent vectors); f from "
        "{0.5||X-T||^2, <W,X>, sum X^4}. Oracle: a dense reference projector assembled by the checker from SVDs of the "
        "unfoldings of dense(x): P Z = sum_{k<d} ((P_{<=k-1} x I) - P_{<=k}) x P_{>=k+1} Z + (P_{<=d-1} x I) Z. Checked at "
        "1e-12 kappa relative: P(z) equals the reference, linearity, idempotence, self-adjointness, P(x)=x, "
        "<z-Pz,Pw>=0, ranks <= 2 x.R, riemannian_gradient(x,f) = P(grad f(X)) with grad f from dense autograd. "
        "Non-trivial: some interior rank of x >= 2 and z not in the tangent space.")
BUDGET = {"quick": 2400, "thorough": 240000}
FLOORS = {"quick": {"operator": 300, "order:2": 100, "order:5": 100, "f:quad": 200, "f:lin": 100, "f:quartic": 100,
                    "what:projection": 600, "what:gradient": 600}}
ASSUMPTIONS = ["x has minimal ranks (verified numerically per case; otherwise the case is counted as skipped)",
               "real float64 only, as the statement says"]


def clip_ranks(dims, R, cap=3):
    R = [1] + [min(r, cap) for r in R[1:-1]] + [1]
    d = len(dims)
    changed = True
    while changed:
        changed = False
        for k in range(1, d):
            m = min(R[k], R[k - 1] * dims[k - 1], dims[k] * R[k + 1])
            if m != R[k]:
                R[k] = m
                changed = True
    return R


@st.composite
def strategy_case(draw):
    ttm = draw(st.floats(0, 1)) < 0.3
    d = draw(st.integers(2, 5))
    if ttm:
        d = min(d, 4)
        M = [draw(st.integers(1, 3)) for _ in range(d)]
        N = [draw(st.integers(1, 3)) for _ in range(d)]
        for k in range(d):
            if M[k] * N[k] == 1:
                N[k] = 2
        dims = [m * n for m, n in zip(M, N)]
    else:
        N = [draw(st.sampled_from([1, 2, 2, 3, 3, 4])) for _ in range(d)]
        if all(n == 1 for n in N):
            N[0] = 2
        M = None
        dims = list(N)
    R = clip_ranks(dims, draw(gen.ranks(d, 3, rank1_bias=0.05)))
    case = {"N": N, "R": R, "seed": draw(gen.SEED), "Rz": draw(gen.ranks(d, 4)), "Rw": draw(gen.ranks(d, 4)),
            "what": draw(st.sampled_from(["projection", "gradient"])),
            "zkind": draw(st.sampled_from(["random", "random", "random", "x", "tangent"])),
            "alpha": draw(st.sampled_from([1.0, -2.0, 0.5])), "beta": draw(st.sampled_from([1.0, 3.0, -0.25]))}
    case["scale_x"] = draw(st.sampled_from([0, 0, 0, 0, -6, -3, 3, 6]))
    if M:
        case["M"] = M
    if case["what"] == "gradient":
        case["f"] = draw(st.sampled_from(["quad", "quad", "lin", "quartic"])) if not M else draw(st.sampled_from(["quad", "quartic"]))
    return case


def strategy(tier):
    return strategy_case()


def features(case):
    return {"operator": "M" in case, "order": len(case["N"]), "what": case["what"], "f": case.get("f")}


def to_modes(Xd, M, N):
    """dense operator (M+N layout) -> tensor with merged modes m_k*n_k"""
    if M is None:
        return Xd
    d = len(N)
    perm = []
    for k in range(d):
        perm += [k, d + k]
    return Xd.permute(perm).reshape([m * n for m, n in zip(M, N)])


def ref_projector(Xm):
    """returns a function Z -> P(Z) on dense arrays with merged modes, and kappa, ranks of the unfoldings"""
    dims = list(Xm.shape)
    d = len(dims)
    PL = [torch.ones(1, 1, dtype=torch.float64)]
    PR = [None] * (d + 1)
    kappa = 1.0
    ranks = [1]
    for k in range(1, d):
        A = Xm.reshape(int(np.prod(dims[:k])), -1)
        U, S, Vh = torch.linalg.svd(A, full_matrices=False)
        r = int((S > 1e-10 * S[0]).sum())
        ranks.append(r)
        kappa = max(kappa, float(S[0] / S[r - 1]))
        PL.append(U[:, :r] @ U[:, :r].T)
        PR[k + 1] = Vh[:r, :].T @ Vh[:r, :]
    ranks.append(1)

    def P(Z):
        out = torch.zeros_like(Z)
        for k in range(1, d + 1):
            Lk = int(np.prod(dims[:k]))
            Zk = Z.reshape(Lk, -1)
            left = torch.kron(PL[k - 1], torch.eye(dims[k - 1], dtype=torch.float64))
            if k < d:
                left = left - PL[k]
                out = out + (left @ Zk @ PR[k + 1]).reshape(Z.shape)
            else:
                out = out + (left @ Zk).reshape(Z.shape)
        return out
    return P, kappa, ranks


def execute(case):
    T = core.tt()
    ck = Checker()
    N, M, R = case["N"], case.get("M"), case["R"]
    d = len(N)
    ttm = M is not None
    ck.label("order:%d" % d, "what:" + case["what"])
    if ttm:
        ck.label("operator")

    def mk(Rr, off):
        spec = {"N": N, "R": Rr, "dt": "f64", "mode": "gauss", "seed": case["seed"] + off}
        if ttm:
            spec["M"] = M
        return core.make_cores(spec)
    xc = mk(R, 0)
    if case.get("scale_x", 0):
        # the tangent space does not depend on the scale of x, the projector is linear in z: 10^k on one core of x
        kx = case["seed"] % d
        xc[kx] = xc[kx] * (10.0 ** case["scale_x"])
        ck.label("scaled_x")
    x = T.TT(core.clone_cores(xc))
    if case["seed"] % 4 == 1:
        # the same base point with cores that are permuted (non-contiguous) views, as A.t(), diag() or an einsum produce them:
        # a reshape of such a core (or of a gradient laid out like it) copies instead of aliasing
        perm = lambda c: c.permute(*reversed(range(c.dim()))).contiguous().permute(*reversed(range(c.dim())))
        x = T.TT([perm(c) for c in core.clone_cores(xc)])
        ck.label("base_point_noncontiguous")
    Xm = to_modes(dense(xc), M, N)
    P, kappa, uranks = ref_projector(Xm)
    if uranks != list(R):
        ck.label("skipped_nonminimal")
        return ck.verdict()
    tol = 1e-12 * kappa      # sensitivity of the tangent space itself: only for comparisons with the checker's own projector
    tol0 = 1e-11             # algebraic identities of the library's projector (idempotence, linearity, ...) do not depend on kappa
    nx = fro(Xm)

    def D(t):
        return to_modes(dense(t.cores), M, N)

    if case["what"] == "projection":
        zk = case["zkind"]
        ck.label("z:" + zk)
        wc = mk(case["Rw"], 2)
        w = T.TT(core.clone_cores(wc))
        if zk == "x":
            z = T.TT(core.clone_cores(xc))
        elif zk == "tangent":
            z = lib(lambda: T.manifold.riemannian_projection(x, T.TT(mk(case["Rz"], 1))))
        else:
            z = T.TT(mk(case["Rz"], 1))
        Zm, Wm = D(z), D(w)
        Pz = lib(lambda: T.manifold.riemannian_projection(x, z))
        Pw = lib(lambda: T.manifold.riemannian_projection(x, w))
        if not ck.require(isinstance(Pz, T.TT) and Pz.is_ttm == ttm and list(Pz.N) == list(N) and (not ttm or list(Pz.M) == list(M)),
                          "shape", "projection kind/shape"):
            return ck.verdict()
        Pzd, Pwd = D(Pz), D(Pw)
        nz, nw = fro(Zm), fro(Wm)
        ck.bound(fro(Pzd - P(Zm)), tol * nz, "projection_value")
        ck.require(all(int(a) <= 2 * int(b) for a, b in zip(Pz.R, x.R)), "ranks", "ranks %s exceed twice %s" % (Pz.R, x.R))
        a, b = case["alpha"], case["beta"]
        comb = z * a + w * b
        Pc = lib(lambda: T.manifold.riemannian_projection(x, comb))
        ck.bound(fro(D(Pc) - (a * Pzd + b * Pwd)), tol0 * (abs(a) * nz + abs(b) * nw), "linearity")
        PPz = lib(lambda: T.manifold.riemannian_projection(x, Pz))
        ck.bound(fro(D(PPz) - Pzd), tol0 * nz, "idempotence")
        ck.bound(abs(float((Pzd * Wm).sum() - (Zm * Pwd).sum())), tol0 * nz * nw, "self_adjoint")
        Px = lib(lambda: T.manifold.riemannian_projection(x, x))
        ck.bound(fro(D(Px) - Xm), tol0 * nx, "fixes_x")
        ck.bound(abs(float(((Zm - Pzd) * Pwd).sum())), tol0 * nz * nw, "residual_orthogonal")
        ck.nontrivial = any(r >= 2 for r in R[1:-1]) and fro(Zm - Pzd) > 1e-3 * nz
        return ck.verdict()

    # riemannian gradient
    f = case["f"]
    ck.label("f:" + f)
    tc = mk(case["Rz"], 3)
    Tt = T.TT(core.clone_cores(tc))
    Tm = to_modes(dense(tc), M, N)
    if f == "quad":
        func = lambda y: 0.5 * (y - Tt).norm(True)
        G = Xm - Tm
    elif f == "lin":
        func = lambda y: T.dot(y, Tt)
        G = Tm
    else:
        func = lambda y: ((y * y) * (y * y)).sum()
        G = 4 * Xm ** 3
    if case["seed"] % 3 == 0:
        # a base point that is a parameter of the caller's own autograd graph (cores require grad): the Riemannian gradient
        # at it is the same tensor, and the caller's .grad buffers are not the library's to fill
        for cc in x.cores:
            cc.requires_grad_(True)
        ck.label("base_point_tracked")
    g = lib(lambda: T.manifold.riemannian_gradient(x, func))
    if case["seed"] % 3 == 0:
        ck.require(all(cc.grad is None for cc in x.cores), "operand_grad_filled", "riemannian_gradient accumulated into the .grad of the base point's cores")
        for cc in x.cores:
            cc.requires_grad_(False)
    if not ck.require(isinstance(g, T.TT) and g.is_ttm == ttm and list(g.N) == list(N), "shape", "gradient kind/shape"):
        return ck.verdict()
    ck.require(all(int(a) <= 2 * int(b) for a, b in zip(g.R, x.R)), "ranks", "ranks %s exceed twice %s" % (g.R, x.R))
    ck.bound(fro(D(g) - P(G)), tol * max(fro(G), 1e-300) * 10, "gradient_value", "f=%s" % f)
    ck.require(all(torch.equal(a, b) for a, b in zip(x.cores, xc)), "operand_modified", "riemannian_gradient changed x")
    ck.nontrivial = any(r >= 2 for r in R[1:-1]) and fro(G - P(G)) > 1e-3 * fro(G)
    return ck.verdict()
