"""C19 - copies and save/load round trips reproduce the object exactly."""
import os
import tempfile
import numpy as np
import torch
from hypothesis import strategies as st

from vt import core, gen
from vt.core import Checker, lib, dense, dense_abs, DT, NPDT, UNIT, MANT, fro

RULE = ("Hypothesis draws a TT tensor/operator (order 1-6, any rank profile 1-4, all four dtypes) produced in one of "
        "several ways - from cores, by TT-SVD with active truncation or by round() (rank list holds numpy integers), "
        "by strided slicing / t() / conj() (non-contiguous or lazily-conjugated core views), with requires_grad cores - "
        "and one of save+load, clone, detach, to(dtype), to(), cpu, numpy. Oracle: round trip (kind, N, M, R as ints, "
        "dtype, torch.equal cores), storage disjointness and independence for clone (in-place edits of the copy's cores; for every copy a set_core that changes a mode size on one object leaves the other's N/M/R/shape intact), value equality on the checker's "
        "dense contraction (converted dtype for to). Non-trivial: some rank>1 and, for save/load, numpy-int ranks or a "
        "non-contiguous core. Distinct = structural signature.")
BUDGET = {"quick": 4000, "thorough": 360000}
FLOORS = {"quick": {"op:saveload": 500, "numpy_int_ranks": 100, "noncontiguous_core": 100, "operator": 200}}
ASSUMPTIONS = ["files are written inside a per-case TemporaryDirectory", "device is CPU (no GPU in the sandbox)",
               "to(dtype) conversions complex->real are not generated (torch discards the imaginary part with a warning)"]

CONV = {"f64": ["f32", "c128", "c64", "f64"], "f32": ["f64", "c64", "f32", "c128"], "c128": ["c64", "c128"], "c64": ["c128", "c64"]}


@st.composite
def strategy_case(draw):
    op = draw(st.sampled_from(["saveload", "saveload", "saveload", "clone", "detach", "to_dtype", "to_none", "cpu", "numpy"]))
    src = draw(st.sampled_from(["cores", "cores", "svd", "round", "slice_step", "slice_range", "t", "conj", "grad", "lazybit"]))
    dt = draw(st.sampled_from(gen.DTYPES_ALL))
    ttm = src == "t" or (src in ("cores", "svd", "grad", "slice_range", "lazybit") and draw(st.floats(0, 1)) < 0.3)
    if src in ("svd",):
        x = draw(gen.tt_spec(dmin=2, dmax=5, sizes=(1, 2, 3, 4), dt=dt, mode="gauss", ttm=ttm, rmax=3, maxnumel=600 if not ttm else 24))
    elif ttm:
        x = draw(gen.tt_spec(dmin=1, dmax=4, sizes=(1, 2, 3, 4), dt=dt, ttm=True, maxnumel=40))
    else:
        x = draw(gen.tt_spec(dmin=1, dmax=6, sizes=(1, 2, 3, 4, 5), dt=dt, maxnumel=3000))
    if src == "lazybit":
        # the conversions that have to resolve the lazy bits; low orders (an order-1 full() is a view of the core)
        op = draw(st.sampled_from(["numpy", "numpy", "saveload", "clone", "cpu", "to_none", "detach"]))
        if not ttm:
            x = draw(gen.tt_spec(dmin=1, dmax=3, sizes=(1, 2, 3, 4, 5), dt=dt, maxnumel=300))
    case = {"op": op, "src": src, "x": x}
    if src in ("svd", "round"):
        case["eps"] = draw(st.sampled_from([1e-12, 1e-3, 0.05, 0.3]))
    if op == "to_dtype":
        case["to"] = draw(st.sampled_from(CONV[dt]))
    return case


def strategy(tier):
    return strategy_case()


def features(case):
    return {"op": case["op"], "src": case["src"], "operator": "M" in case["x"], "dt": case["x"]["dt"]}


def _build(T, case, ck):
    xs = case["x"]
    cores = core.make_cores(xs)
    src = case["src"]
    ttm = "M" in xs
    if src == "cores":
        return T.TT(cores)
    if src == "grad":
        for c in cores[::2]:
            c.requires_grad_(True)
        return T.TT(cores)
    if src == "svd":
        full = dense(cores).to(DT[xs["dt"]])
        g = core.rng(xs["seed"] + 1)
        full = full + 0.05 * float(torch.linalg.norm(full.reshape(-1))) / max(full.numel(), 1) ** 0.5 * core.payload(list(full.shape), xs["dt"], "gauss", g)
        if ttm:
            return T.TT(full, [(m, n) for m, n in zip(xs["M"], xs["N"])], eps=case["eps"])
        return T.TT(full, eps=case["eps"])
    if src == "round":
        x = T.TT(cores)
        return (x + x).round(case["eps"])
    if src == "slice_step":
        x = T.TT(cores)
        idx = tuple(slice(None, None, 2) if n >= 3 else slice(None) for n in xs["N"])
        y = x[idx]
        return y if isinstance(y, T.TT) else x
    if src == "slice_range":
        # contiguous ranges a:b on every mode that allows one: the cores of the result are windows into the parent's cores
        # (the first one a *contiguous* window, the others non-contiguous views)
        x = T.TT(cores)
        rng_ = lambda n: slice(1, n) if n >= 2 else slice(None)
        if ttm:
            idx = tuple(rng_(m) for m in xs["M"]) + tuple(rng_(n) for n in xs["N"])
        else:
            idx = tuple(rng_(n) for n in xs["N"])
        y = x[idx]
        return y if isinstance(y, T.TT) else x
    if src == "t":
        return T.TT(cores).t()
    if src == "conj":
        return T.TT(cores).conj()
    if src == "lazybit":
        # cores that are views carrying torch's lazy negation bit (real dtypes: the imaginary part of a conjugated complex
        # tensor) or lazy conjugation bit (complex dtypes); their value is that of the drawn cores
        if cores[0].is_complex():
            lazy = [torch.conj(c.conj().resolve_conj()) for c in cores]
        else:
            lazy = [torch.complex(torch.zeros_like(c), -c).conj().imag for c in cores]
        return T.TT(lazy)
    raise core.HarnessError(src)


def execute(case):
    T = core.tt()
    ck = Checker()
    op, src = case["op"], case["src"]
    dt = case["x"]["dt"]
    x = lib(_build, T, case, ck)
    ttm = x.is_ttm
    ck.label("op:" + op, "src:" + src, "dt:" + dt, "order:%d" % len(x.N))
    if ttm:
        ck.label("operator")
    if any(isinstance(r, np.integer) for r in x.R):
        ck.label("numpy_int_ranks")
    nonc = any((not c.is_contiguous()) or c.storage_offset() != 0 for c in x.cores)
    if nonc:
        ck.label("noncontiguous_core")
    if any(c.is_conj() for c in x.cores):
        ck.label("conj_bit_core")
    big = any(int(r) > 1 for r in x.R)
    snap = [c.detach().resolve_conj().clone() for c in x.cores]
    xd = dense(snap)

    def same_meta(y, what, dtype):
        ok = ck.require(isinstance(y, T.TT), what + "_type", "%s returned %s" % (what, type(y).__name__))
        if not ok:
            return False
        ok = ck.require(y.is_ttm == ttm, what + "_kind", "is_ttm differs")
        ok = ok and ck.require([int(n) for n in y.N] == [int(n) for n in x.N], what + "_N", "N %s != %s" % (y.N, x.N))
        if ttm and ok:
            ok = ck.require([int(n) for n in y.M] == [int(n) for n in x.M], what + "_M", "M %s != %s" % (y.M, x.M))
        ok = ok and ck.require([int(r) for r in y.R] == [int(r) for r in x.R], what + "_R", "R %s != %s" % (y.R, x.R))
        ok = ok and ck.require(all(c.dtype == dtype for c in y.cores), what + "_dtype", "dtype %s" % y.cores[0].dtype)
        # .shape is derived bookkeeping (list of ints, or of (m, n) pairs for an operator): it has to follow N / M and the cores
        norm = lambda sh: [tuple(int(a) for a in e) if isinstance(e, (tuple, list)) else int(e) for e in sh]
        exp = [(int(c.shape[1]), int(c.shape[2])) for c in y.cores] if y.is_ttm else [int(c.shape[1]) for c in y.cores]
        ok = ok and ck.require(norm(y.shape) == norm(x.shape) == exp, what + "_shape", "shape %s, source %s, cores %s" % (y.shape, x.shape, exp))
        return ok

    def meta_independent(y, what):
        """the documented in-place set_core (it may change a mode size) on the copy or on the source must leave the other
        object's N / M / R / shape as they were and consistent with its own cores (a copy owns its bookkeeping)"""
        if ck.failed is not None:
            return
        d_ = len(x.N)
        k = case["x"]["seed"] % d_
        a, b = (x, y) if (case["x"]["seed"] // 3) % 2 == 0 else (y, x)       # a is modified, b is watched
        before = ([int(n) for n in b.N], [int(m) for m in b.M] if ttm else None, [int(r) for r in b.R], list(b.shape))
        old = a.cores[k].detach()
        shp = list(old.shape)
        shp[1] += 1
        if ttm:
            shp[2] += 2
        new = torch.zeros(shp, dtype=old.dtype)
        try:
            lib(lambda: a.set_core(k, new))
        except core.LibraryException:
            return      # set_core itself is C05's / C18's business
        ck.label("meta_independence:" + what)
        now = ([int(n) for n in b.N], [int(m) for m in b.M] if ttm else None, [int(r) for r in b.R], list(b.shape))
        ck.require(now == before, what + "_meta_shared", "set_core on the %s changed the %s's bookkeeping: N/M/R/shape %s -> %s" % (
            "source" if a is x else "copy", "copy" if a is x else "source", before, now))
        own_N = [int(c.shape[-2]) for c in b.cores]
        ck.require(own_N == [int(n) for n in b.N], what + "_meta_inconsistent", "N %s does not match the object's own cores %s" % (b.N, own_N))

    if op == "saveload":
        with tempfile.TemporaryDirectory(prefix="vt_c19_") as td:
            path = os.path.join(td, "x.TT")
            lib(lambda: T.save(x, path))
            y = lib(lambda: T.load(path))
        if same_meta(y, "load", DT[dt]):
            ck.require(all(list(a.shape) == list(b.shape) and torch.equal(a.detach().resolve_conj(), b.detach().resolve_conj())
                           for a, b in zip(y.cores, snap)), "load_cores", "loaded cores are not bit-identical")
        ck.nontrivial = big and ("numpy_int_ranks" in ck.classes or nonc)
    elif op == "clone":
        y = lib(lambda: x.clone())
        if same_meta(y, "clone", DT[dt]):
            ck.require(all(torch.equal(a.detach().resolve_conj(), b.resolve_conj()) for a, b in zip(y.cores, snap)), "clone_cores", "clone cores differ")
            ptrs = {c.untyped_storage().data_ptr() for c in x.cores}
            ck.require(all(c.untyped_storage().data_ptr() not in ptrs for c in y.cores), "clone_shares_storage",
                       "a clone core shares storage with the original")
            with torch.no_grad():
                for c in y.cores:
                    c.detach().mul_(2.0).add_(1.0)
            ck.require(all(torch.equal(a.detach().resolve_conj(), b.resolve_conj()) for a, b in zip(x.cores, snap)), "clone_independent",
                       "editing the clone in place changed the original")
            meta_independent(y, "clone")
        ck.nontrivial = big
    elif op == "detach":
        y = lib(lambda: x.detach())
        if same_meta(y, "detach", DT[dt]):
            ck.require(all(not c.requires_grad for c in y.cores), "detach_requires_grad", "detached cores still require grad")
            ck.require((len(y.cores) == len(snap) and all(a.shape == b.shape and torch.equal(a.detach().resolve_conj(), b) for a, b in zip(y.cores, snap))), "detach_value", "detach changed the value")
            meta_independent(y, "detach")
        ck.nontrivial = big and src == "grad"
    elif op in ("to_none", "cpu"):
        y = lib(lambda: x.to() if op == "to_none" else x.cpu())
        if same_meta(y, op, DT[dt]):
            ck.require((len(y.cores) == len(snap) and all(a.shape == b.shape and torch.equal(a.detach().resolve_conj(), b) for a, b in zip(y.cores, snap))), op + "_value", "%s changed the value" % op)
            meta_independent(y, op)
        ck.nontrivial = big
    elif op == "to_dtype":
        to = case["to"]
        ck.label("to:%s->%s" % (dt, to))
        dev = [None, "cpu", torch.device("cpu")][case["x"]["seed"] % 3]
        ck.label("to:device=%s" % ("None" if dev is None else "cpu"))
        y = lib(lambda: x.to(dtype=DT[to]) if dev is None else x.to(device=dev, dtype=DT[to]))
        if same_meta(y, "to", DT[to]):
            ref = dense([c.to(DT[to]) for c in snap])
            ck.require(core.bit_equal(dense(y.cores), ref), "to_value", "to(dtype) value differs from converting the cores")
            # and against the dense conversion within the roundoff of the coarser dtype
            uu = max(UNIT[to], UNIT[dt])
            ck.bound(fro(dense(y.cores) - xd), 64 * len(x.N) * max(int(r) for r in x.R) * uu * max(fro(dense_abs(snap)), 1e-300), "to_value_roundoff")
            meta_independent(y, "to")
        ck.nontrivial = big and to != dt
    elif op == "numpy":
        if any(c.requires_grad for c in x.cores):
            x = x.detach()
        y = lib(lambda: x.numpy())
        if ck.require(isinstance(y, np.ndarray), "numpy_type", "numpy() returned %s" % type(y).__name__):
            ck.require(y.dtype == NPDT[dt], "numpy_dtype", "numpy dtype %s" % y.dtype)
            if ck.require(list(y.shape) == list(xd.shape), "numpy_shape", "numpy() shape %s != %s" % (list(y.shape), list(xd.shape))):
                yy = core.widen(torch.from_numpy(np.ascontiguousarray(y)))
                ck.bound(fro(yy - xd), 64 * len(x.N) * max(int(r) for r in x.R) * UNIT[dt] * max(fro(dense_abs(snap)), 1e-300), "numpy_value")
        ck.nontrivial = big
    return ck.verdict()
