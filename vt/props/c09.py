"""C09 - cat, pad, diag, mprod, to_ttm, conj, clone are exact."""
import numpy as np
import torch
import torch.nn.functional as F
from hypothesis import strategies as st

from vt import core, gen
from vt.core import Checker, lib, dense, dense_abs, DT, UNIT, MANT, fro

RULE = ("Hypothesis draws an operation (cat of 2-3 operands along every axis with operands differing only in that mode "
        "and in ranks; pad of tensors with any constant on 0..d trailing modes and widths 0-2; pad of operators "
        "(block rule of the statement) on 0..d trailing modes; diag both directions; mprod single mode / list of "
        "distinct modes with rectangular factors; to_ttm; conj; clone), order 1-4, mostly distinct mode sizes 1-5, "
        "independent rank profiles, real/complex/float32, integer payload (bit-exact oracle) or Gaussian. Oracle: "
        "torch.cat / F.pad / block assembly / diag embedding-extraction / mode product / reshape / conj on the dense "
        "contraction. Non-trivial: some rank>1 and (cat) operands with different ranks, (pad) a mode with padded and "
        "unpadded indices. Distinct = structural signature.")
BUDGET = {"quick": 12000, "thorough": 600000}
FLOORS = {"quick": {"op:cat": 500, "op:pad": 500, "op:pad_ttm": 400, "op:diag_embed": 200, "op:diag_extract": 200,
                    "op:mprod": 400, "pad:value!=0": 300, "pad:subset_of_modes": 200, "mprod:list": 100}}
ASSUMPTIONS = ["pad widths are non-negative; operator pad with some trailing modes unpadded treats them as width (0,0) "
               "(no corner block exists then, everything outside the original block is 0)",
               "diag extraction of a rectangular operator is the diagonal x[i] = A[i,i] over i_k < min(M_k, N_k)"]

SZ = (1, 2, 3, 4, 5)
VALUES = [0, 0, 2, -1.5, 0.5, 0.3, 1.0 / 3.0, -0.1]


@st.composite
def strategy_case(draw):
    op = draw(st.sampled_from(["cat", "cat", "pad", "pad", "pad_ttm", "pad_ttm", "diag_embed", "diag_extract", "mprod", "mprod",
                               "to_ttm", "conj", "clone"]))
    dt = draw(st.sampled_from(gen.DTYPES_ALL))
    mode = "int" if draw(st.floats(0, 1)) < 0.75 else "gauss"
    if op == "cat":
        x = draw(gen.tt_spec(dmin=1, dmax=4, sizes=SZ, dt=dt, mode=mode, maxnumel=600))
        d = len(x["N"])
        ax = draw(st.integers(0, d - 1))
        others = []
        for _ in range(draw(st.integers(1, 2))):
            N = list(x["N"])
            N[ax] = draw(st.integers(1, 4))
            others.append(draw(gen.tt_spec(N=N, dt=dt, mode=mode)))
        case = {"op": op, "x": x, "others": others, "axis": ax, "container": draw(st.sampled_from(["tuple", "list"])),
                "argform": draw(gen.int_form(("neg", "np")))}
        if draw(st.integers(0, 9)) == 0:
            # operands of different dtype: torch.cat would promote; the library may refuse, but must not return a value that
            # differs from the promoted concatenation (e.g. by dropping imaginary parts)
            other_dt = draw(st.sampled_from([t for t in gen.DTYPES_ALL if t != dt]))
            case["others"][0] = dict(case["others"][0], dt=other_dt)
            case["mixed_dtype"] = True
        return case
    if op == "pad":
        x = draw(gen.tt_spec(dmin=1, dmax=4, sizes=SZ, dt=dt, mode=mode, maxnumel=400))
        d = len(x["N"])
        p = draw(st.integers(0, d))
        padding = [[draw(st.integers(0, 2)), draw(st.integers(0, 2))] for _ in range(p)]
        return {"op": op, "x": x, "padding": padding, "value": draw(st.sampled_from(VALUES))}
    if op == "pad_ttm":
        x = draw(gen.tt_spec(dmin=1, dmax=3, sizes=(1, 2, 3), dt=dt, mode=mode, ttm=True, rmax=3, maxnumel=30))
        d = len(x["N"])
        p = draw(st.integers(0, d))
        padding = [[draw(st.integers(0, 2)), draw(st.integers(0, 2))] for _ in range(p)]
        return {"op": op, "x": x, "padding": padding, "value": draw(st.sampled_from(VALUES))}
    if op == "diag_embed":
        x = draw(gen.tt_spec(dmin=1, dmax=4, sizes=(1, 2, 3, 4), dt=dt, mode=mode, maxnumel=60))
        return {"op": op, "x": x}
    if op == "diag_extract":
        N = draw(gen.modes(1, 4, (1, 2, 3, 4), maxnumel=60))
        M = list(N)
        if draw(st.integers(0, 2)) == 0:
            # rectangular modes: the diagonal x[i] = A[i, i] runs over i_k < min(M_k, N_k) (tall and wide blocks)
            M = [draw(st.integers(1, 5)) for _ in N]
        x = draw(gen.tt_spec(N=N, M=M, dt=dt, mode=mode))
        return {"op": op, "x": x}
    x = draw(gen.tt_spec(dmin=1, dmax=4, sizes=SZ, dt=dt, mode=mode, maxnumel=600))
    d = len(x["N"])
    case = {"op": op, "x": x}
    if op == "mprod":
        form = draw(st.sampled_from(["single", "list"]))
        if form == "single":
            ms = [draw(st.integers(0, d - 1))]
        else:
            ms = draw(st.lists(st.integers(0, d - 1), min_size=1, max_size=d + 1, unique=draw(st.booleans())))
        case["modes"] = ms
        case["form"] = form
        case["rows"] = [draw(st.integers(1, 5)) for _ in ms]
        case["fseed"] = draw(gen.SEED)
        case["argform"] = draw(gen.int_form(("neg", "np") if form == "single" else ("neg", "np", "tuple")))
    return case


def strategy(tier):
    return strategy_case()


def features(case):
    f = {"op": case["op"], "order": len(case["x"]["N"])}
    if case["op"] in ("pad", "pad_ttm"):
        f["value_nonzero"] = case["value"] != 0
        f["npad"] = len(case["padding"])
        f["subset"] = 0 < len(case["padding"]) < len(case["x"]["N"])
    return f


def _check_tt(ck, T, res, ref, ref_abs, dt, exact, ttm, C=64):
    if not ck.require(isinstance(res, T.TT), "result_type", "result is %s" % type(res).__name__):
        return
    if not ck.require(res.is_ttm == ttm, "result_kind", "is_ttm=%s expected %s" % (res.is_ttm, ttm)):
        return
    g = dense(res.cores)
    meta = (list(res.M) + list(res.N)) if ttm else list(res.N)
    if not ck.require(list(g.shape) == list(ref.shape) and meta == list(ref.shape), "shape",
                      "result shape %s, dense operation gives %s" % (meta, list(ref.shape))):
        return
    ck.require(all(c.dtype == DT[dt] for c in res.cores), "dtype",
               lambda: "core dtypes %s, operand %s" % (sorted({str(c.dtype) for c in res.cores}), DT[dt]))
    if exact and float(ref_abs.max()) < MANT[dt]:
        ck.label("exact")
        ck.require(core.bit_equal(g, ref), "value_exact",
                   lambda: "result differs from the dense operation: max |diff| %g at %s" % (
                       float((g - ref).abs().max()), list(np.unravel_index(int((g - ref).abs().argmax()), tuple(g.shape)))))
    else:
        ck.bound(fro(g - ref), C * UNIT[dt] * max(fro(ref_abs), 1e-300), "value_roundoff")


def execute(case):
    T = core.tt()
    ck = Checker()
    op = case["op"]
    xs = case["x"]
    dt = xs["dt"]
    d = len(xs["N"])
    ttm = "M" in xs
    xc = core.make_cores(xs)
    x = T.TT(core.clone_cores(xc))
    xd, xa = dense(xc), dense_abs(xc)
    exact = xs["mode"] == "int"
    big = any(r > 1 for r in xs["R"])
    ck.label("op:" + op, "dt:" + dt, "order:%d" % d, "payload:" + xs["mode"])

    if op == "cat":
        ax = case["axis"]
        ocs = [core.make_cores(o) for o in case["others"]]
        tts = [x] + [T.TT(core.clone_cores(c)) for c in ocs]
        arg = tuple(tts) if case["container"] == "tuple" else list(tts)
        if case.get("mixed_dtype"):
            ck.label("cat:mixed_dtype")
            try:
                res = lib(lambda: T.cat(arg, ax))
            except core.LibraryException as e:
                if type(e.orig).__name__ in ("InvalidArguments", "IncompatibleTypes", "ShapeMismatch"):
                    ck.label("cat:mixed_dtype_rejected")
                    return ck.verdict()
                raise
            refm = torch.cat([core.widen(xd).to(torch.complex128)] + [core.widen(dense(c)).to(torch.complex128) for c in ocs], ax)
            got_d = core.widen(dense(res.cores)).to(torch.complex128) if isinstance(res, T.TT) else None
            ck.require(got_d is not None and list(got_d.shape) == list(refm.shape) and
                       fro(got_d - refm) <= 1e-5 * max(fro(refm), 1e-300), "cat_mixed_dtype_value",
                       "cat of operands with different dtypes returned a value that is not the promoted concatenation")
            return ck.verdict()
        form = case.get("argform", "plain")
        if form != "plain":
            ck.label("argform:" + form)
            try:
                res = lib(lambda: T.cat(arg, gen.apply_int_form([ax], form, d, scalar=True)))
            except core.LibraryException:
                ck.label("argform_rejected")
                return ck.verdict()
        else:
            res = lib(lambda: T.cat(arg, ax))
        ref = torch.cat([xd] + [dense(c) for c in ocs], ax)
        ref_abs = torch.cat([xa] + [dense_abs(c) for c in ocs], ax)
        ck.label("cat:n=%d" % len(tts), "cat:axis=%s" % ("first" if ax == 0 else ("last" if ax == d - 1 else "middle")))
        _check_tt(ck, T, res, ref, ref_abs, dt, exact, False)
        ck.nontrivial = big and any(o["R"] != xs["R"] for o in case["others"])
        return ck.verdict()

    if op == "pad":
        padding = [tuple(p) for p in case["padding"]]
        val = case["value"]
        res = lib(lambda: T.pad(x, tuple(padding), value=val))
        flat = []
        for p in reversed(padding):
            flat += [p[0], p[1]]
        ref = F.pad(xd, flat, value=val) if flat else xd
        ref_abs = F.pad(xa, flat, value=abs(val)) if flat else xa
        if val != 0:
            ck.label("pad:value!=0")
        if 0 < len(padding) < d:
            ck.label("pad:subset_of_modes")
        mixed = any((p[0] + p[1]) > 0 for p in padding)
        if mixed:
            ck.label("pad:some_mode_padded")
        ex = exact and val in (0, 2, -1.5, 0.5)
        if val not in (0, 2, -1.5, 0.5):
            ck.label("pad:value_not_dyadic")
        _check_tt(ck, T, res, ref, ref_abs, dt, ex, False, C=16)
        ck.nontrivial = big and mixed
        return ck.verdict()

    if op == "pad_ttm":
        padding = [tuple(p) for p in case["padding"]]
        val = case["value"]
        M, N = xs["M"], xs["N"]
        res = lib(lambda: T.pad(x, tuple(padding), value=val))
        full = [(0, 0)] * (d - len(padding)) + padding
        Mn = [m + p[0] + p[1] for m, p in zip(M, full)]
        Nn = [n + p[0] + p[1] for n, p in zip(N, full)]
        ref = torch.zeros(Mn + Nn, dtype=xd.dtype)
        blk = tuple(slice(p[0], p[0] + m) for m, p in zip(M, full)) + tuple(slice(p[0], p[0] + n) for n, p in zip(N, full))
        ref[blk] = xd
        ref_abs = torch.zeros(Mn + Nn, dtype=xa.dtype)
        ref_abs[blk] = xa
        if len(padding) > 0:
            # leading corner: value * identity over the leading paddings of all modes (exists iff every b_k > 0)
            lead = [p[0] for p in full]
            trail = [p[1] for p in full]
            if all(w > 0 for w in lead):
                for idx in np.ndindex(*lead):
                    ref[tuple(idx) + tuple(idx)] = val
                    ref_abs[tuple(idx) + tuple(idx)] = abs(val)
            if all(w > 0 for w in trail):
                for idx in np.ndindex(*trail):
                    r = tuple(p[0] + m + i for m, p, i in zip(M, full, idx))
                    c = tuple(p[0] + n + i for n, p, i in zip(N, full, idx))
                    ref[r + c] = val
                    ref_abs[r + c] = abs(val)
        if val != 0:
            ck.label("pad:value!=0")
        if 0 < len(padding) < d:
            ck.label("pad:subset_of_modes")
        mixed = any((p[0] + p[1]) > 0 for p in padding)
        _check_tt(ck, T, res, ref, ref_abs, dt, exact and val in (0, 2, -1.5, 0.5), True, C=16)
        ck.nontrivial = big and mixed
        return ck.verdict()

    if op == "diag_embed":
        if xs["seed"] % 2:
            # the result must take its dtype from the operand, not from torch's global default dtype
            ck.label("default_dtype:float64")
            old_default = torch.get_default_dtype()
            torch.set_default_dtype(torch.float64)
            try:
                res = lib(lambda: T.diag(x))
            finally:
                torch.set_default_dtype(old_default)
        else:
            res = lib(lambda: T.diag(x))
        tot = int(np.prod(xs["N"]))
        ref = torch.diag(xd.reshape(-1)).reshape(xs["N"] + xs["N"])
        ref_abs = torch.diag(xa.reshape(-1)).reshape(xs["N"] + xs["N"])
        _check_tt(ck, T, res, ref, ref_abs, dt, exact, True)
        ck.nontrivial = big and d >= 2
        return ck.verdict()

    if op == "diag_extract":
        res = lib(lambda: T.diag(x))
        mins = [min(m, n) for m, n in zip(xs["M"], xs["N"])]
        grids = torch.meshgrid(*[torch.arange(k) for k in mins], indexing="ij")
        ref = xd[tuple(grids) + tuple(grids)]
        ref_abs = xa[tuple(grids) + tuple(grids)]
        if xs["M"] != xs["N"]:
            ck.label("diag:rectangular")
        _check_tt(ck, T, res, ref, ref_abs, dt, exact, False)
        ck.nontrivial = big and d >= 2
        return ck.verdict()

    if op == "mprod":
        g = core.rng(case["fseed"])
        ms = case["modes"]
        cur = list(xs["N"])
        facs = []
        for l, m in zip(case["rows"], ms):     # a mode may occur several times: the factors are applied in sequence
            facs.append(core.payload([l, cur[m]], dt, xs["mode"], g))
            cur[m] = l
        if len(set(ms)) < len(ms):
            ck.label("mprod:repeated_mode")
        aform = case.get("argform", "plain")
        try:
            if case["form"] == "single":
                res = lib(lambda: x.mprod(facs[0].clone(), gen.apply_int_form(ms, aform, d, scalar=True)))
            else:
                ck.label("mprod:list")
                res = lib(lambda: x.mprod([f.clone() for f in facs], gen.apply_int_form(ms, aform, d)))
        except core.LibraryException:
            if aform == "plain":
                raise
            ck.label("argform:" + aform, "argform_rejected")
            return ck.verdict()
        if aform != "plain":
            ck.label("argform:" + aform)
        ref, ref_abs = xd, xa
        for f, m in zip(facs, ms):
            ref = torch.movedim(torch.tensordot(core.widen(f), ref, dims=([1], [m])), 0, m)
            ref_abs = torch.movedim(torch.tensordot(core.widen(f).abs(), ref_abs, dims=([1], [m])), 0, m)
        _check_tt(ck, T, res, ref, ref_abs, dt, exact, False)
        ck.nontrivial = big and (any(l != xs["N"][m] for l, m in zip(case["rows"], ms)) or len(set(ms)) < len(ms))
        return ck.verdict()

    if op == "to_ttm":
        res = lib(lambda: x.to_ttm())
        _check_tt(ck, T, res, xd.reshape(xs["N"] + [1] * d), xa.reshape(xs["N"] + [1] * d), dt, exact, True)
        ck.nontrivial = big and d >= 2
        return ck.verdict()

    if op == "conj":
        res = lib(lambda: x.conj())
        _check_tt(ck, T, res, xd.conj(), xa, dt, exact, False)
        ck.nontrivial = big and core.is_complex(dt)
        return ck.verdict()

    if op == "clone":
        res = lib(lambda: x.clone())
        _check_tt(ck, T, res, xd, xa, dt, True, False)
        if ck.failed is None:
            ptrs = {c.untyped_storage().data_ptr() for c in x.cores}
            ck.require(all(c.untyped_storage().data_ptr() not in ptrs for c in res.cores), "clone_shares_storage",
                       "clone shares storage with the original")
            ck.require(all(torch.equal(a, b) for a, b in zip(res.cores, xc)), "clone_cores", "clone cores differ")
        ck.nontrivial = big
        return ck.verdict()
    raise core.HarnessError("unknown op " + op)
