"""C03 - TT-tensor arithmetic equals dense arithmetic entry for entry."""
import numpy as np
import torch
from hypothesis import strategies as st

from vt import core, gen
from vt.core import Checker, lib, dense, dense_abs, DT, UNIT, MANT, fro

RULE = ("Hypothesis draws an operation (binary +,-,* with all broadcasting alignments of the second operand, and the same "
        "alignments with the operands swapped - there the library may raise ShapeMismatch, a returned TT must equal torch's broadcast -, "
        "scalar ops from both sides with every scalar kind, unary, /scalar, kron, full(), factories), operand "
        "structures (order 1-5, mode sizes from {1,2,3,4,5,7} mostly pairwise distinct, independent rank "
        "profiles 1-4, dtype) and payload seeds (70% small-integer payload -> bit-exact oracle, 30% Gaussian -> "
        "roundoff oracle); the oracle is the same expression on the checker's own dense contraction. "
        "Non-trivial: both TT operands have some rank>1, or a broadcast happened, or (scalar/unary/full) the operand "
        "has a rank>1 and order>=2. Distinct = distinct structural signature (case with payload seeds removed).")
BUDGET = {"quick": 16000, "thorough": 1200000}
FLOORS = {"quick": {"broadcast": 300, "op:add": 300, "op:mul": 300, "exact": 3000, "singleton_mode_rank>1": 100}}
ASSUMPTIONS = ["dense reference = checker's own matrix-product contraction of the cores in float64/complex128",
               "tensor scalars are generated with the dtype of the TT operand (mixed dtypes are outside the statement)",
               "broadcasting of the *first* operand to the second is allowed to raise ShapeMismatch (documented direction "
               "is second-to-first); if it returns, the value must be right"]

BIN = ("add", "sub", "mul")
SCAL_ADD = ("int", "float", "npfloat64", "npint", "npfloat32", "t0d", "t1", "complex", "t0d_i64", "t0d_other", "npuint8", "t0d_u8")
SCAL_MUL = ("int", "float", "npfloat64", "npint", "npfloat32", "t0d", "t1", "complex", "t0d_i64", "t0d_other")
SCAL_LEFT = ("int", "float", "complex")
SCAL_DIV = ("int", "float", "npfloat64", "npint", "npfloat32", "t0d", "t1", "t0d_i64", "t0d_other")


@st.composite
def strategy_case(draw):
    op = draw(st.sampled_from(["add", "sub", "mul"] * 4 + ["sadd", "ssub", "smul", "radd", "rsub", "rmul", "sdiv",
                                                          "neg", "pos", "kron", "kron_none", "full", "factory", "factory", "factory"]))
    if op == "factory":
        which = draw(st.sampled_from(["ones", "zeros", "eye", "rank1TT", "meshgrid", "ones_ttm", "zeros_ttm",
                                      "rank1TT_ttm"]))
        N = draw(gen.modes(1, 4, maxnumel=600))
        M = draw(gen.modes(len(N), len(N), maxnumel=600))
        if which == "eye":
            N = draw(gen.modes(1, 3, sizes=(1, 2, 3, 4), maxnumel=100))
        return {"op": op, "which": which, "N": N, "M": M, "dt": draw(st.sampled_from(gen.DTYPES_ALL)),
                "seed": draw(gen.SEED), "mode": draw(st.sampled_from(["int", "gauss"]))}
    x = draw(gen.tt_spec(dmin=1, dmax=5))
    case = {"op": op, "x": x}
    d = len(x["N"])
    if op in BIN:
        align = draw(st.sampled_from(["same", "same", "trail", "ones", "trail_ones", "rev", "rev_trail", "rev_ones",
                                       "rev_trail_ones"]))
        N = list(x["N"])
        if align in ("trail", "trail_ones", "rev_trail", "rev_trail_ones") and d > 1:
            k = draw(st.integers(1, d - 1))
            N = N[d - k:]
        if align in ("ones", "trail_ones", "rev_ones", "rev_trail_ones"):
            flags = draw(st.lists(st.booleans(), min_size=len(N), max_size=len(N)))
            N = [1 if f else n for n, f in zip(N, flags)]
        y = draw(gen.tt_spec(N=N, dt=x["dt"], mode=x["mode"]))
        case["y"] = y
        case["align"] = align
    elif op == "kron":
        case["y"] = draw(gen.tt_spec(dmin=1, dmax=3, dt=x["dt"], mode=x["mode"], maxnumel=64))
    elif op in ("sadd", "ssub"):
        kinds = SCAL_ADD if core.is_complex(x["dt"]) else [k for k in SCAL_ADD if k != "complex"]
        case["s"] = draw(gen.scalar(kinds))
    elif op in ("smul",):
        kinds = SCAL_MUL if core.is_complex(x["dt"]) else [k for k in SCAL_MUL if k != "complex"]
        case["s"] = draw(gen.scalar(kinds))
    elif op in ("radd", "rsub", "rmul"):
        kinds = SCAL_LEFT if core.is_complex(x["dt"]) else [k for k in SCAL_LEFT if k != "complex"]
        case["s"] = draw(gen.scalar(kinds))
    elif op == "sdiv":
        s = draw(gen.scalar(SCAL_DIV))
        if s["value"] == 0:
            s["value"] = 4
        case["s"] = s
    return case


def strategy(tier):
    return strategy_case()


def features(case):
    f = {"op": case["op"]}
    if "s" in case:
        f["scalar_kind"] = case["s"]["kind"]
    if "x" in case:
        f["order"] = len(case["x"]["N"])
        f["x_shape"] = case["x"]["N"]
    if "which" in case:
        f["which"] = case["which"]
    return f


def _bshape(xd, yd):
    return torch.broadcast_shapes(tuple(xd.shape), tuple(yd.shape))


def execute(case):
    # torch's global default dtype is state of the caller: a third of the non-factory cases run with float64 as default (any
    # helper tensor the library allocates without an explicit dtype then differs from single-precision operands)
    if case["op"] != "factory" and case["x"]["seed"] % 3 == 0:
        old = torch.get_default_dtype()
        torch.set_default_dtype(torch.float64)
        try:
            v = _execute(case)
        finally:
            torch.set_default_dtype(old)
        return v
    return _execute(case)


def _execute(case):
    T = core.tt()
    ck = Checker()
    op = case["op"]
    ck.label("op:" + op)
    if op != "factory" and case["x"]["seed"] % 3 == 0:
        ck.label("default_dtype_float64")
    if op == "factory":
        return _factory(T, ck, case)

    xs = case["x"]
    dt = xs["dt"]
    u = UNIT[dt]
    xc = core.make_cores(xs)
    x = T.TT(core.clone_cores(xc))
    xd = dense(xc)
    xa = dense_abs(xc)
    d = len(xs["N"])
    ck.label("dt:" + dt, "order:%d" % d, "payload:" + xs["mode"])
    if any(n == 1 and (xs["R"][i] > 1 or xs["R"][i + 1] > 1) for i, n in enumerate(xs["N"])):
        ck.label("singleton_mode_rank>1")
    rx = xs["R"]
    big = any(r > 1 for r in rx)
    res = None
    exp_R = None
    exact = xs["mode"] == "int"

    if op in BIN:
        ys = case["y"]
        yc = core.make_cores(ys)
        y = T.TT(core.clone_cores(yc))
        yd = dense(yc)
        ya = dense_abs(yc)
        align = case["align"]
        ck.label("align:" + align)
        first, second, fd, sd, fa, sa, fr, sr = x, y, xd, yd, xa, ya, rx, ys["R"]
        rev = align.startswith("rev")
        if rev:
            first, second, fd, sd, fa, sa, fr, sr = y, x, yd, xd, ya, xa, ys["R"], rx
        bcast = list(fd.shape) != list(sd.shape)
        f = {"add": lambda a, b: a + b, "sub": lambda a, b: a - b, "mul": lambda a, b: a * b}[op]
        try:
            res = lib(f, first, second)
        except core.LibraryException as e:
            if rev and bcast and isinstance(e.orig, T.errors.ShapeMismatch):
                ck.label("rejected_cleanly")
                return ck.verdict()
            raise
        if not ck.require(list(_bshape(fd, sd)) == list(fd.shape) or rev, "harness", "bad generator"):
            return ck.verdict()
        ref = f(fd, sd)
        ref_abs = (fa * sa) if op == "mul" else (fa + sa)
        dd = len(fd.shape)
        ext = [1] * (dd - len(sd.shape) + 1) + list(sr[1:]) if dd >= len(sd.shape) else None
        if ext is not None and list(ref.shape) == list(fd.shape):
            if op == "mul":
                exp_R = [a * b for a, b in zip(fr, ext)]
            else:
                exp_R = [1] + [a + b for a, b in zip(fr[1:-1], ext[1:-1])] + [1]
        if bcast:
            ck.label("broadcast")
        ck.nontrivial = (big and any(r > 1 for r in ys["R"])) or bcast
    elif op == "kron":
        ys = case["y"]
        yc = core.make_cores(ys)
        y = T.TT(core.clone_cores(yc))
        res = lib(lambda: x ** y)
        ref = torch.tensordot(xd, dense(yc), dims=0)
        ref_abs = torch.tensordot(xa, dense_abs(yc), dims=0)
        exp_R = rx + ys["R"][1:]
        ck.nontrivial = big or any(r > 1 for r in ys["R"])
    elif op == "kron_none":
        if xs["seed"] % 2:
            res = lib(lambda: None ** x)          # __rpow__: "If None is provided as input the result is the other tensor"
            ck.label("rpow_none")
        else:
            res = lib(lambda: x ** None)
        ref, ref_abs, exp_R = xd, xa, rx
        ck.nontrivial = big and d >= 2
    elif op in ("neg", "pos"):
        res = lib(lambda: -x if op == "neg" else +x)
        ref = -xd if op == "neg" else xd
        ref_abs, exp_R = xa, rx
        ck.nontrivial = big and d >= 2
    elif op == "full":
        got = lib(lambda: x.full())
        ck.require(torch.is_tensor(got), "full_type", "full() did not return a tensor")
        if ck.failed is None:
            ck.require(got.dtype == DT[dt], "dtype", "full() dtype %s != %s" % (got.dtype, DT[dt]))
            ck.require(list(got.shape) == list(xd.shape), "full_shape",
                       "full() shape %s != %s" % (list(got.shape), list(xd.shape)))
        if ck.failed is None:
            if exact and float(xa.max()) < MANT[dt]:
                ck.label("exact")
                ck.require(core.bit_equal(got, xd), "full_value_exact", lambda: "full() differs from the contraction: max |diff| %g" % float((core.widen(got) - xd).abs().max()))
            else:
                ck.bound(fro(core.widen(got) - xd), 16 * (d + 2) * max(rx) * u * fro(xa), "full_value_roundoff")
        ck.nontrivial = big and d >= 2
        return ck.verdict()
    else:
        s = case["s"]
        sv = gen.build_scalar(s, dt)
        sc = gen.scalar_exact_value(s, dt)
        ck.label("scalar:" + s["kind"])
        if not gen.is_dyadic(s) or (s["kind"] == "npfloat32" and not gen.is_dyadic(s)):
            exact = False
            ck.label("scalar_not_dyadic")
        if s["kind"] == "npfloat32":
            import numpy as _np
            sc = float(_np.float32(s["value"]))
        if sc == 0:
            ck.label("scalar_zero")
        one = torch.ones_like(xa)
        if op == "sadd":
            res = lib(lambda: x + sv); ref = xd + sc; ref_abs = xa + abs(sc) * one
        elif op == "radd":
            res = lib(lambda: sv + x); ref = xd + sc; ref_abs = xa + abs(sc) * one
        elif op == "ssub":
            res = lib(lambda: x - sv); ref = xd - sc; ref_abs = xa + abs(sc) * one
        elif op == "rsub":
            res = lib(lambda: sv - x); ref = sc - xd; ref_abs = xa + abs(sc) * one
        elif op == "smul":
            res = lib(lambda: x * sv); ref = xd * sc; ref_abs = xa * abs(sc)
        elif op == "rmul":
            res = lib(lambda: sv * x); ref = xd * sc; ref_abs = xa * abs(sc)
        elif op == "sdiv":
            res = lib(lambda: x / sv); ref = xd / sc; ref_abs = xa / abs(sc)
            m, e = np.frexp(abs(sc))
            if m != 0.5:
                exact = False
        if op in ("sadd", "radd", "ssub", "rsub"):
            exp_R = [1] + [r + 1 for r in rx[1:-1]] + [1]
        else:
            exp_R = rx if sc != 0 else None
        ck.nontrivial = big and d >= 2

    # --- common oracle on the result --------------------------------------------------------------
    if not ck.require(isinstance(res, T.TT), "result_type", "result is %s, not a TT" % type(res).__name__):
        return ck.verdict()
    if not ck.require(not res.is_ttm, "result_kind", "result is a TT matrix"):
        return ck.verdict()
    ck.require(all(c.dtype == DT[dt] for c in res.cores), "dtype",
               lambda: "result core dtypes %s, operand dtype %s" % ([str(c.dtype) for c in res.cores], DT[dt]))
    got = dense(res.cores)
    if not ck.require(list(got.shape) == list(ref.shape) and list(res.N) == list(ref.shape), "shape",
                      "result shape %s (N=%s), dense expression shape %s" % (list(got.shape), res.N, list(ref.shape))):
        return ck.verdict()
    if exp_R is not None:
        ck.require(list(res.R) == list(exp_R), "rank_structure", "result ranks %s, documented structure %s" % (res.R, exp_R))
    elif op in ("smul", "rmul"):
        ck.require(all(a <= b for a, b in zip(res.R, rx)), "rank_structure", "scalar product raised a rank")
    if exact:
        ck.label("exact")
        ck.require(core.bit_equal(got, ref), "value_exact",
                   lambda: "integer payload: result differs from dense expression, max |diff| %g" % float((got - ref).abs().max()))
    else:
        dd = len(ref.shape)
        ck.bound(fro(got - ref), 16 * (dd + 2) * u * max(fro(ref_abs), 1e-300), "value_roundoff")
    return ck.verdict()


def _factory(T, ck, case):
    which, N, M, dt = case["which"], case["N"], case["M"], case["dt"]
    dtype = DT[dt]
    d = len(N)
    ck.label("factory:" + which, "dt:" + dt)
    g = core.rng(case["seed"])
    if which == "ones":
        res = lib(lambda: T.ones(list(N), dtype=dtype)); ref = torch.ones(N, dtype=core.WIDE[dt])
    elif which == "zeros":
        res = lib(lambda: T.zeros(list(N), dtype=dtype)); ref = torch.zeros(N, dtype=core.WIDE[dt])
    elif which == "ones_ttm":
        res = lib(lambda: T.ones([(m, n) for m, n in zip(M, N)], dtype=dtype)); ref = torch.ones(M + N, dtype=core.WIDE[dt])
    elif which == "zeros_ttm":
        res = lib(lambda: T.zeros([(m, n) for m, n in zip(M, N)], dtype=dtype)); ref = torch.zeros(M + N, dtype=core.WIDE[dt])
    elif which == "eye":
        res = lib(lambda: T.eye(list(N), dtype=dtype))
        tot = int(np.prod(N))
        ref = torch.eye(tot, dtype=core.WIDE[dt]).reshape(N + N)
    elif which == "rank1TT":
        vs = [core.payload([n], dt, case["mode"], g) for n in N]
        res = lib(lambda: T.rank1TT([v.clone() for v in vs]))
        ref = core.widen(vs[0])
        for v in vs[1:]:
            ref = torch.tensordot(ref, core.widen(v), dims=0)
    elif which == "rank1TT_ttm":
        ms = [core.payload([m, n], dt, case["mode"], g) for m, n in zip(M, N)]
        res = lib(lambda: T.rank1TT([v.clone() for v in ms]))
        ref = core.widen(ms[0])
        for v in ms[1:]:
            ref = torch.tensordot(ref, core.widen(v), dims=0)
        perm = [2 * i for i in range(d)] + [2 * i + 1 for i in range(d)]
        ref = ref.permute(perm)
    elif which == "meshgrid":
        vs = [core.payload([n], dt, case["mode"], g) for n in N]
        res = lib(lambda: T.meshgrid([v.clone() for v in vs]))
        ck.require(isinstance(res, list) and len(res) == d and all(isinstance(r, T.TT) for r in res), "result_type",
                   "meshgrid did not return a list of d TTs")
        if ck.failed is None:
            refs = torch.meshgrid(*[core.widen(v) for v in vs], indexing="ij")
            for k in range(d):
                got = dense(res[k].cores)
                ck.require(core.bit_equal(got, refs[k]), "value_exact", "meshgrid component %d differs" % k)
                ck.require(all(c.dtype == dtype for c in res[k].cores), "dtype", "meshgrid dtype")
                ck.require(list(res[k].R) == [1] * (d + 1), "rank_structure", "meshgrid ranks %s" % res[k].R)
        ck.nontrivial = d >= 2
        return ck.verdict()
    ck.require(isinstance(res, T.TT), "result_type", "factory returned %s" % type(res).__name__)
    if ck.failed is None:
        ttm = which in ("ones_ttm", "zeros_ttm", "eye", "rank1TT_ttm")
        ck.require(res.is_ttm == ttm, "result_kind", "is_ttm=%s" % res.is_ttm)
        ck.require(all(c.dtype == dtype for c in res.cores), "dtype", lambda: "factory dtype %s" % res.cores[0].dtype)
        ck.require(list(res.R) == [1] * (d + 1), "rank_structure", "factory ranks %s" % res.R)
        got = dense(res.cores)
        # rank-one objects: every entry is a product of d factors -> exact for integer payload, one rounding per
        # multiplication otherwise
        if which.startswith("rank1TT") and case["mode"] == "gauss":
            ck.bound(fro(got - ref), 8 * (d + 1) * UNIT[dt] * max(fro(ref), 1e-300), "value_roundoff")
        else:
            ck.require(core.bit_equal(got, ref), "value_exact", "factory %s: entries differ from their definition" % which)
    ck.nontrivial = d >= 2
    return ck.verdict()
