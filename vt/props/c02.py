"""C02 - rounding never exceeds eps, never raises a rank, and leaves its operand intact."""
import math
import numpy as np
import torch
from hypothesis import strategies as st

from vt import core, gen
from vt.core import Checker, lib, dense, DT, UNIT, fro

RULE = ("TT tensors and operators of order 1-7 are built from cores (never through the library's TT-SVD): base cores "
        "with ranks 1-5, then optionally inflated (m stacked copies or zero-block rank padding, so the true unfolding "
        "ranks are known by construction), made zero, *gauge-scrambled* (G_k, G_k^-1 with cond in {1,1e2,1e4,1e6} "
        "inserted between neighbours, cores rescaled by 10^(+-3) in cancelling pairs), or taken from an exact full-rank "
        "TT of a noise-saturating array (low rank + flat noise of norm c*eps*||x||) or of a superdiagonal tie array. "
        "eps in [0,0.5] incl. 0 (raised to 10x the representation roundoff when non-zero so that the check stays a check "
        "of eps), rmax scalar or per-bond list, four dtypes. Oracle: new object of the same shape; r' <= r, <= rmax, and "
        "<= constructed unfolding rank when eps >= 1e4 u kappa; if rmax is not binding ||dense(y)-dense(x)|| <= "
        "eps||x||(1+1e-9) + 64 d u prod_k||C_k||_F; operand cores bit-identical, not aliased. Non-trivial: some rank reduced.")
BUDGET = {"quick": 5000, "thorough": 800000}
FLOORS = {"quick": {"variant:inflate_copies": 300, "variant:inflate_zeros": 300, "variant:noise": 400, "variant:tie": 150,
                    "scrambled:1e6": 200, "zero": 100, "operator": 500, "eps=0": 200, "rmax_binding": 150,
                    "all_bonds_reduced": 200, "eps_dominant": 1500}}
ASSUMPTIONS = ["the value of x is the float64 contraction of the (possibly scrambled) cores actually passed to round()",
               "kappa = prod_k ||C_k||_F / ||x||_F bounds the roundoff of any orthogonalisation sweep"]

SZ = (1, 2, 3, 4, 5)


@st.composite
def strategy_case(draw):
    variant = draw(st.sampled_from(["plain", "plain", "inflate_copies", "inflate_zeros", "noise", "noise", "tie", "zero"]))
    dt = draw(st.sampled_from(gen.DTYPES_ALL))
    ttm = variant in ("plain", "inflate_copies", "inflate_zeros", "zero") and draw(st.floats(0, 1)) < 0.3
    case = {"variant": variant, "dt": dt, "seed": draw(gen.SEED)}
    if variant == "tie":
        sp = draw(st.sampled_from([[12, 4, 3], [6, 3, 2], [8, 4, 1], [9, 6, 2], [7, 4, 4], [2, 2, 1], [4, 2, 2, 1], [6, 5, 4, 2]]))
        case["spectrum"] = sp
        case["order"] = draw(st.integers(2, 5))
        case["eps_variant"] = draw(st.sampled_from(["tie", "below", "above"]))
        d = case["order"]
    elif variant == "noise":
        N = draw(gen.modes(2, 6, (1, 2, 3, 4, 5, 6), maxnumel=2500, distinct_bias=0.3))
        case["N"] = N
        d = len(N)
        case["R"] = draw(gen.ranks(d, 3))
        case["noise_c"] = draw(st.sampled_from([0.5, 1, 2, 4]))
        case["eps"] = 10 ** draw(st.floats(-6, math.log10(0.4)))
    else:
        if ttm:
            d = draw(st.integers(1, 4))
            case["M"] = draw(gen.modes(d, d, (1, 2, 3), maxnumel=81))
            case["N"] = draw(gen.modes(d, d, (1, 2, 3), maxnumel=81))
        else:
            case["N"] = draw(gen.modes(1, 7, SZ, maxnumel=4096, distinct_bias=0.3))
            d = len(case["N"])
        case["R"] = draw(gen.ranks(d, 5 if variant == "plain" else 3, rank1_bias=0.05))
        if variant == "inflate_copies":
            case["copies"] = draw(st.integers(2, 3))
        if variant == "inflate_zeros":
            case["extra"] = [0] + [draw(st.integers(0, 3)) for _ in range(d - 1)] + [0]
    if variant not in ("noise", "tie"):
        e = draw(st.sampled_from(["zero", "tiny", "log", "log", "log"]))
        case["eps"] = 0.0 if e == "zero" else (1e-14 if e == "tiny" else 10 ** draw(st.floats(-10, math.log10(0.5))))
    case["scramble"] = draw(st.sampled_from([0, 0, 1, 1e2, 1e4, 1e6]))
    case["scale_exp"] = draw(st.sampled_from([0, 0, 0, -6, -3, 3, 6, -20, 20, -170, 170]))
    case["scale_core"] = draw(st.integers(0, 6))
    case["rescale"] = draw(st.booleans())
    rk = draw(st.sampled_from(["default", "default", "int", "list"]))
    if rk == "int":
        case["rmax"] = draw(st.integers(1, 6))
    elif rk == "list":
        case["rmax"] = [1] + [draw(st.integers(1, 6)) for _ in range(d - 1)] + [1]
    else:
        case["rmax"] = None
    return case


def strategy(tier):
    return strategy_case()


def features(case):
    return {"variant": case["variant"], "dt": case["dt"], "scramble": case["scramble"], "operator": "M" in case}


def _full_rank_tt(A):
    """exact (untruncated) TT of a dense array by successive QR - the checker's own decomposition."""
    shp = list(A.shape)
    d = len(shp)
    cores = []
    r = 1
    C = A
    for k in range(d - 1):
        C = C.reshape(r * shp[k], -1)
        Q, Rm = torch.linalg.qr(C)
        cores.append(Q.reshape(r, shp[k], Q.shape[1]))
        r = Q.shape[1]
        C = Rm
    cores.append(C.reshape(r, shp[-1], 1))
    return cores


def scramble(cores, cond, g, wdt):
    """Insert G_k, G_k^-1 with cond(G_k)=cond between neighbouring cores (value preserving up to roundoff)."""
    cores = list(cores)
    d = len(cores)
    for k in range(d - 1):
        r = cores[k].shape[-1]
        U = torch.linalg.qr(core.payload([r, r], wdt, "gauss", g))[0]
        V = torch.linalg.qr(core.payload([r, r], wdt, "gauss", g))[0]
        sv = torch.logspace(0, math.log10(cond), r, dtype=torch.float64) if r > 1 else torch.ones(1, dtype=torch.float64)
        sv = sv.to(DT[wdt])
        Gm = U @ torch.diag(sv) @ V.conj().T
        Gi = V @ torch.diag(1.0 / sv) @ U.conj().T
        a = cores[k]
        b = cores[k + 1]
        cores[k] = (a.reshape(-1, r) @ Gm).reshape(a.shape)
        cores[k + 1] = (Gi @ b.reshape(r, -1)).reshape(b.shape)
    return cores


def build(case):
    """returns (cores in dtype dt, ub = constructed unfolding-rank bound or None, eps)"""
    dt = case["dt"]
    cplx = core.is_complex(dt)
    wdt = "c128" if cplx else "f64"
    g = core.rng(case["seed"])
    variant = case["variant"]
    eps = case.get("eps")
    if variant == "tie":
        sp = case["spectrum"]
        n, d = len(sp), case["order"]
        cores = []
        for k in range(d):
            if k == 0:
                c = torch.zeros(1, n, n, dtype=DT[wdt])
                for i in range(n):
                    c[0, i, i] = float(sp[i])
            elif k == d - 1:
                c = torch.zeros(n, n, 1, dtype=DT[wdt])
                for i in range(n):
                    c[i, i, 0] = 1.0
            else:
                c = torch.zeros(n, n, n, dtype=DT[wdt])
                for i in range(n):
                    c[i, i, i] = 1.0
            cores.append(c)
        t = min(sp) * math.sqrt(d - 1) / math.sqrt(sum(s * s for s in sp))
        eps = float(t if case["eps_variant"] == "tie" else np.nextafter(t, 0.0 if case["eps_variant"] == "below" else 1.0))
        ub = [1] + [n] * (d - 1) + [1]
    elif variant == "noise":
        N, R = case["N"], case["R"]
        base = core.make_cores({"N": N, "R": R, "dt": wdt, "mode": "gauss", "seed": case["seed"]})
        A = dense(base)
        G = core.payload(list(A.shape), wdt, "gauss", g)
        A = A + case["noise_c"] * eps * fro(A) * G / max(fro(G), 1e-300)
        cores = _full_rank_tt(A)
        ub = None
    else:
        N, R, M = case["N"], case["R"], case.get("M")
        d = len(N)
        spec = {"N": N, "R": R, "dt": wdt, "mode": "gauss", "seed": case["seed"]}
        if M:
            spec["M"] = M
        cores = core.make_cores(spec)
        dims = [n * (M[i] if M else 1) for i, n in enumerate(N)]
        ub = [1] + [int(min(R[k], np.prod(dims[:k]), np.prod(dims[k:]))) for k in range(1, d)] + [1]
        if variant == "zero":
            k = case["seed"] % d
            cores[k] = torch.zeros_like(cores[k])
            ub = [1] * (d + 1)
        elif variant == "inflate_copies" and d > 1:
            m = case["copies"]
            new = []
            for k, c in enumerate(cores):
                r0, r1 = c.shape[0], c.shape[-1]
                mid = list(c.shape[1:-1])
                big = torch.zeros([r0 * (m if k > 0 else 1)] + mid + [r1 * (m if k < d - 1 else 1)], dtype=c.dtype)
                for j in range(m):
                    a = j * r0 if k > 0 else 0
                    b = j * r1 if k < d - 1 else 0
                    big[a:a + r0, ..., b:b + r1] = c
                new.append(big)
            cores = new
        elif variant == "inflate_zeros" and d > 1:
            ex = case["extra"]
            new = []
            for k, c in enumerate(cores):
                mid = list(c.shape[1:-1])
                big = torch.zeros([c.shape[0] + ex[k]] + mid + [c.shape[-1] + ex[k + 1]], dtype=c.dtype)
                big[:c.shape[0], ..., :c.shape[-1]] = c
                new.append(big)
            cores = new
    d = len(cores)
    # gauge scrambling (value preserving up to roundoff)
    cond = case["scramble"]
    if cond and d > 1:
        cores = scramble(cores, cond, g, wdt)
    if case["rescale"] and d > 1:
        for k in range(0, d - 1, 2):
            cores[k] = cores[k] * 1e3
            cores[k + 1] = cores[k + 1] * 1e-3
    if case.get("scale_exp", 0):
        k = case["scale_core"] % d
        e = case["scale_exp"]
        if abs(e) >= 20 and dt in ("f32", "c64"):      # float32 range: 10^+-20 -> 10^+-4, 10^+-170 -> 10^+-25
            # (with a gauge of condition >= 1e4 on top, 10^+-25 would push intermediate core products out of the float32 range)
            e = (4 if (abs(e) == 20 or case.get("scramble", 0) >= 1e4 or case.get("rescale")) else 25) * (1 if e > 0 else -1)
        cores[k] = cores[k] * (10.0 ** e)
    cores = [c.to(DT[dt]).contiguous() for c in cores]
    return cores, ub, eps


def execute(case):
    T = core.tt()
    ck = Checker()
    dt = case["dt"]
    u = UNIT[dt]
    cores, ub, eps = build(case)
    d = len(cores)
    ttm = cores[0].dim() == 4
    ck.label("variant:" + case["variant"], "dt:" + dt, "order:%d" % d, "scrambled:1e%d" % (round(math.log10(case["scramble"])) if case["scramble"] else -1))
    if ttm:
        ck.label("operator")
    if case["rescale"]:
        ck.label("rescaled")
    if case.get("scale_exp", 0):
        ck.label("scaled:1e%d" % case["scale_exp"])
    ref = dense(cores)
    nref = fro(ref)
    prodn = 1.0
    for c in cores:
        prodn *= fro(c)
    round_allow = 64 * d * u * prodn
    if nref == 0:
        ck.label("zero")
    # keep the check a check of eps: non-zero eps is raised above the representation roundoff
    if eps > 0 and nref > 0:
        floor_eps = 10 * round_allow / nref
        if eps >= floor_eps:
            ck.label("eps_dominant")
        elif case["variant"] in ("noise", "tie"):
            ck.label("eps_below_roundoff_floor")
        else:
            eps = min(floor_eps, 0.5)
            ck.label("eps_raised")
    if eps == 0:
        ck.label("eps=0")
    x = T.TT([c.clone() for c in cores])
    snap = [c.clone() for c in x.cores]
    ids = [id(c) for c in x.cores]
    vers = [c._version for c in x.cores]
    lst = x.cores
    R0 = [int(r) for r in x.R]
    rmax = case["rmax"]
    kw = {}
    if rmax is not None:
        kw["rmax"] = list(rmax) if isinstance(rmax, list) else rmax
    # eps as the library is likely to receive it from a computation: numpy float, 0-d tensor (e.g. tol / x.norm())
    eform = ["float", "float", "np", "t0d"][case["seed"] % 4] if "seed" in case else "float"
    ck.label("eps_form:" + eform)
    eps_arg = {"float": eps, "np": np.float64(eps), "t0d": torch.tensor(eps, dtype=torch.float64)}[eform]
    y = lib(lambda: x.round(eps_arg, **kw))

    # operand intact
    ck.require(x.cores is lst and [id(c) for c in x.cores] == ids, "operand_cores_rebound", "round() re-bound the operand's cores")
    ck.require(all(torch.equal(a, b) for a, b in zip(x.cores, snap)) and [c._version for c in x.cores] == vers,
               "operand_modified", "round() changed the operand's cores")
    ck.require([int(r) for r in x.R] == R0, "operand_R_changed", "operand R changed from %s to %s" % (R0, x.R))
    if not ck.require(isinstance(y, T.TT) and y is not x, "result_type", "round() must return a new TT"):
        return ck.verdict()
    ptrs = {c.untyped_storage().data_ptr() for c in x.cores}
    ck.require(all(c.untyped_storage().data_ptr() not in ptrs for c in y.cores), "result_aliases_operand",
               "the rounded object shares storage with the operand")
    ck.require(y.is_ttm == ttm and [int(n) for n in y.N] == [int(n) for n in x.N] and
               (not ttm or [int(m) for m in y.M] == [int(m) for m in x.M]), "shape", "shape changed")
    R1 = [int(r) for r in y.R]
    if not ck.require(len(R1) == d + 1 and R1[0] == 1 and R1[-1] == 1, "boundary_ranks", "R=%s" % R1):
        return ck.verdict()
    ck.require(all(c.dtype == DT[dt] for c in y.cores), "dtype", "dtype changed")
    ck.require(all(a <= b for a, b in zip(R1, R0)), "rank_raised", "ranks %s -> %s" % (R0, R1))
    caps = None
    if rmax is not None:
        caps = rmax if isinstance(rmax, list) else [1] + [rmax] * (d - 1) + [1]
        ck.require(all(R1[k] <= caps[k] for k in range(1, d)), "rank_le_rmax", "R=%s rmax=%s" % (R1, caps))
    kappa_rel = prodn / nref if nref > 0 else float("inf")
    if ub is not None and (nref == 0 or eps >= 1e4 * u * kappa_rel):
        ck.label("unfolding_rank_checked")
        ck.require(all(R1[k] <= ub[k] for k in range(d + 1)), "rank_le_unfolding_rank",
                   "rounded ranks %s exceed the true unfolding ranks %s (eps=%g, stored ranks %s)" % (R1, ub, eps, R0))
    binding = caps is not None and any(R1[k] >= caps[k] and R1[k] < R0[k] for k in range(1, d))
    if binding:
        try:
            yf = lib(lambda: x.round(eps))        # the same call without rmax: does it need a rank above the cap?
            binding = any(int(yf.R[k]) > caps[k] for k in range(1, d))
        except core.LibraryException:
            pass
    ck.require(all(bool(torch.isfinite(c).all()) for c in y.cores) or not all(bool(torch.isfinite(c).all()) for c in x.cores),
               "finite", "round() returned non-finite cores for a finite operand")
    if binding:
        ck.label("rmax_binding")
    reduced = [R1[k] < R0[k] for k in range(1, d)]
    if reduced and all(reduced):
        ck.label("all_bonds_reduced")
    if not binding:
        got = dense(y.cores)
        ck.bound(fro(got - ref), eps * nref * (1 + 1e-9) + 2 * round_allow, "accuracy",
                 "eps=%g R %s -> %s kappa=%.3g" % (eps, R0, R1, kappa_rel))
    ck.nontrivial = any(reduced)
    return ck.verdict()
