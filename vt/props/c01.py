"""C01 - TT-SVD meets the requested accuracy and rank bounds for every dense input."""
import math
import numpy as np
import torch
from hypothesis import strategies as st

from vt import core, gen
from vt.core import Checker, lib, dense, DT, NPDT, UNIT, fro

RULE = ("Dense arrays of order 1-6 (<=4096 entries, modes 1-8 with singleton modes anywhere), four dtypes, torch or "
        "numpy source, target = tensor (shape None or an explicit list incl. a reshape of the source) or operator "
        "[(M_k,N_k)], eps log-uniform in (1e-9,1), rmax default / int / per-bond list. Four spectrum families: "
        "(a) exact-rank (dense of a random TT/TT-matrix, unfolding ranks known by construction), (b) noise-saturating "
        "(low rank + flat Gaussian noise of norm c*eps*||A||, c in {0.5,1,2,4}, so every bond truncates at the edge of its "
        "allowance), (c) exact ties (diagonal / superdiagonal arrays with integer singular values of integer norm, "
        "optionally Kronecker-extended by one-hot modes, eps = s_min*sqrt(d-1)/||s|| and its two float neighbours), "
        "(d) degenerate (zeros, single non-zero, constant, all modes 1). Oracle: requested shape/kind, boundary ranks 1, "
        "rank <= rmax, <= unfolding dimensions, <= constructed unfolding rank (eps >= 1e3 u), and - when no rmax entry "
        "binds - ||dense(cores)-A|| <= eps ||A|| (1+1e-9) + 64 u sqrt(size) ||A||; dtype preserved. Non-trivial: some bond "
        "actually truncated (rank < both unfolding dimensions). Distinct = structural signature.")
BUDGET = {"quick": 6000, "thorough": 1000000}
FLOORS = {"quick": {"family:a": 800, "family:b": 800, "family:c": 300, "family:d": 200, "exact_tie_last_sv": 40,
                    "all_bonds_truncated": 100, "rmax_binding": 200, "operator": 500, "source:numpy": 1000,
                    "singleton_mode": 800}}
ASSUMPTIONS = ["||.|| is the Frobenius norm of the array in the requested target layout",
               "'exact_tie_last_sv' is a label computed by replaying the library's threshold arithmetic on the first "
               "unfolding; it is not part of the oracle"]

# integer spectra with integer 2-norm and >= 3 values (ties at the last singular value)
SPECTRA = [[12, 4, 3], [6, 3, 2], [8, 4, 1], [9, 6, 2], [7, 4, 4], [2, 2, 1], [11, 10, 2], [4, 2, 2, 1], [6, 5, 4, 2],
           [14, 5, 2], [12, 9, 8], [10, 10, 5, 0][:3], [16, 11, 8, 0][:3], [5, 4, 2, 2]]
SZ = (1, 2, 3, 4, 5, 6, 8)


@st.composite
def strategy_case(draw):
    fam = draw(st.sampled_from(["a", "a", "a", "b", "b", "b", "c", "d"]))
    dt = draw(st.sampled_from(gen.DTYPES_ALL))
    # numpy_view: a reversed (negative stride) view; numpy_swapped: non-native byte order; torch_grad: a tensor that is
    # attached to the autograd graph (an ordinary dense tensor of a listed dtype)
    source = draw(st.sampled_from(["torch", "torch", "numpy", "numpy", "numpy_view", "numpy_swapped", "torch_grad"]))
    case = {"family": fam, "dt": dt, "source": source, "seed": draw(gen.SEED),
            "scale_exp": draw(st.sampled_from([0, 0, 0, -6, -3, 3, 6, -20, 20, -170, 170]))}
    if fam == "c":
        sp = draw(st.sampled_from(SPECTRA))
        n = len(sp)
        order = draw(st.integers(2, 4))
        pre = draw(st.lists(st.integers(1, 3), min_size=0, max_size=1))
        post = draw(st.lists(st.integers(1, 3), min_size=0, max_size=2 if order + len(pre) <= 4 else 1))
        case.update({"spectrum": sp, "core_order": order, "pre": pre, "post": post,
                     "perm_seed": draw(gen.SEED), "eps_variant": draw(st.sampled_from(["tie", "tie", "below", "above"])),
                     "target": draw(st.sampled_from(["none", "list"]))})
        return case
    target = draw(st.sampled_from(["none", "none", "list", "ttm"]))
    case["target"] = target
    if target == "ttm":
        d = draw(st.integers(1, 4))
        M = draw(gen.modes(d, d, (1, 2, 3, 4), maxnumel=64))
        N = draw(gen.modes(d, d, (1, 2, 3, 4), maxnumel=64))
        case["M"], case["N"] = M, N
        case["present"] = draw(st.sampled_from(["asis", "matrix", "flat"]))
    else:
        N = draw(gen.modes(1, 6, SZ, maxnumel=4096, distinct_bias=0.3))
        case["N"] = N
        case["present"] = draw(st.sampled_from(["flat", "merge", "asis"])) if target == "list" else "asis"
    d = len(case["N"])
    case["R"] = draw(gen.ranks(d, 4, rank1_bias=0.1))
    # eps: log-uniform with extra weight on [1e-6, 0.5]
    if draw(st.booleans()):
        case["eps"] = 10 ** draw(st.floats(-6, math.log10(0.5)))
    else:
        case["eps"] = 10 ** draw(st.floats(-9, -1e-3))
    rk = draw(st.sampled_from(["default", "default", "int", "list"]))
    if rk == "int":
        case["rmax"] = draw(st.integers(1, 6))
    elif rk == "list":
        # the boundary entries of a per-bond list are not used by the decomposition (boundary ranks are 1): any value may stand there
        case["rmax"] = [draw(st.sampled_from([1, 1, 5, 30]))] + [draw(st.integers(1, 6)) for _ in range(d - 1)] + [draw(st.sampled_from([1, 1, 7]))]
    else:
        case["rmax"] = None
    if fam == "b":
        case["noise_c"] = draw(st.sampled_from([0.5, 1, 2, 4]))
    if fam == "d":
        case["kind"] = draw(st.sampled_from(["zeros", "single", "const", "ones_modes"]))
        if case["kind"] == "ones_modes":
            case["N"] = [1] * d
            if target == "ttm":
                case["M"] = [1] * d
    return case


def strategy(tier):
    return strategy_case()


def features(case):
    return {"family": case["family"], "target": case.get("target"), "dt": case["dt"],
            "eps_variant": case.get("eps_variant"), "spectrum_len": len(case.get("spectrum", []))}


def _tie_array(case):
    sp = case["spectrum"]
    n = len(sp)
    k = case["core_order"]
    A = torch.zeros([n] * k, dtype=torch.float64)
    g = core.rng(case["perm_seed"])
    perms = [torch.arange(n)] + [torch.randperm(n, generator=g) for _ in range(k - 1)]
    for i in range(n):
        A[tuple(int(p[i]) for p in perms)] = float(sp[i])
    ranks = [n] * (k - 1)
    for m in reversed(case["pre"]):
        e = torch.zeros(m, dtype=torch.float64)
        e[case["perm_seed"] % m] = 1.0
        A = torch.tensordot(e, A, dims=0)
        ranks = [1] + ranks
    for m in case["post"]:
        e = torch.zeros(m, dtype=torch.float64)
        e[(case["perm_seed"] // 7) % m] = 1.0
        A = torch.tensordot(A, e, dims=0)
        ranks = ranks + [1]
    d = A.dim()
    t = min(sp) * math.sqrt(d - 1) / math.sqrt(sum(s * s for s in sp))
    if case["eps_variant"] == "below":
        eps = float(np.nextafter(t, 0.0))
    elif case["eps_variant"] == "above":
        eps = float(np.nextafter(t, 1.0))
    else:
        eps = float(t)
    return A, [1] + ranks + [1], eps


def build_input(case):
    """returns (A_target (float64/complex128 array in target layout), source object, shape arg, N, M, bound ranks, eps, rmax)"""
    dt = case["dt"]
    fam = case["family"]
    g = core.rng(case["seed"])
    if fam == "c":
        A, ub, eps = _tie_array(case)
        N, M = list(A.shape), None
        if core.is_complex(dt):
            A = A.to(torch.complex128) * complex(0.6, 0.8)
        rmax = None
        present = "flat" if case["target"] == "list" else "asis"
    else:
        N, M = case["N"], case.get("M")
        d = len(N)
        R = case["R"]
        eps, rmax = case["eps"], case["rmax"]
        dims = [n * (M[i] if M else 1) for i, n in enumerate(N)]
        left = np.cumprod([1] + dims)[:-1]
        ub = [1] + [int(min(R[k], np.prod(dims[:k]), np.prod(dims[k:]))) for k in range(1, d)] + [1]
        if fam in ("a", "b"):
            spec = {"N": N, "R": R, "dt": "c128" if core.is_complex(dt) else "f64", "mode": "gauss", "seed": case["seed"]}
            if M:
                spec["M"] = M
            A = dense(core.make_cores(spec))
            if fam == "b":
                G = core.payload(list(A.shape), "c128" if core.is_complex(dt) else "f64", "gauss", g)
                nA = fro(A)
                A = A + case["noise_c"] * eps * nA * G / max(fro(G), 1e-300)
                ub = None
        else:
            shp = (list(M) + list(N)) if M else list(N)
            wd = torch.complex128 if core.is_complex(dt) else torch.float64
            kind = case["kind"]
            if kind == "zeros":
                A = torch.zeros(shp, dtype=wd)
            elif kind == "single":
                A = torch.zeros(shp, dtype=wd)
                A.reshape(-1)[case["seed"] % A.numel()] = 3.0
            else:
                A = torch.full(shp, 2.0, dtype=wd)
            ub = [1] * (d + 1)
        present = case["present"]
    if abs(case.get("scale_exp", 0)) >= 20 and dt in ("f32", "c64"):
        # keep float32 data inside its exponent range: 10^+-20 -> 10^+-4, 10^+-170 -> 10^+-25 (squares leave the range)
        e_ = 4 if abs(case["scale_exp"]) == 20 else (25 if abs(case["scale_exp"]) == 170 else 40)     # 1e-40: denormal in float32
        case = dict(case, scale_exp=e_ if case["scale_exp"] > 0 else -e_)
    if case.get("scale_exp", 0) and fam != "c":
        A = A * (10.0 ** case["scale_exp"])
    A = A.to(DT[dt])            # the actual input, in the input dtype
    Aw = core.widen(A)
    src = A.clone()
    if present == "flat":
        src = src.reshape(-1)
    elif present == "matrix" and M:
        src = src.reshape(int(np.prod(M)), int(np.prod(N)))
    elif present == "merge" and A.dim() >= 2:
        shp = list(A.shape)
        src = src.reshape([shp[0] * shp[1]] + shp[2:])
    if case["source"] == "numpy":
        src = src.numpy()
    elif case["source"] == "numpy_view":
        # the same array handed over as a view with a negative stride along its first axis (np.flip / a[::-1])
        src = np.ascontiguousarray(src.numpy()[::-1])[::-1] if src.dim() >= 1 and src.shape[0] > 0 else src.numpy()
    elif case["source"] == "numpy_swapped":
        a = src.numpy()
        src = a.astype(a.dtype.newbyteorder(">" if a.dtype.byteorder in ("=", "<", "|") and np.little_endian else "<"))
    elif case["source"] == "torch_grad":
        src = src.requires_grad_(True)
    if case.get("target") == "ttm":
        shape = [(int(m), int(n)) for m, n in zip(M, N)]
    elif case.get("target") == "list":
        shape = [int(n) for n in N]
    else:
        shape = None
    return Aw, src, shape, N, M, ub, eps, rmax


def execute(case):
    T = core.tt()
    ck = Checker()
    dt = case["dt"]
    u = UNIT[dt]
    Aw, src, shape, N, M, ub, eps, rmax = build_input(case)
    d = len(N)
    fam = case["family"]
    ck.label("family:" + fam, "dt:" + dt, "source:" + case["source"], "target:" + str(case.get("target")), "order:%d" % d)
    if M:
        ck.label("operator")
    if case.get("scale_exp", 0) and fam != "c":
        ck.label("scaled:1e%d" % case["scale_exp"])
    if any(n == 1 for n in N):
        ck.label("singleton_mode")
    if any(n == 1 and 0 < i < len(N) - 1 for i, n in enumerate(N)):
        ck.label("interior_singleton_mode")
    dims = [n * (M[i] if M else 1) for i, n in enumerate(N)]

    kw = {"eps": eps}
    if rmax is not None:
        kw["rmax"] = rmax if not isinstance(rmax, list) else list(rmax)
    rmax_passed = kw.get("rmax")
    keep = src.copy() if isinstance(src, np.ndarray) else src.detach().clone()
    x = lib(lambda: T.TT(src, shape, **kw) if shape is not None else T.TT(src, **kw))
    same = np.array_equal(keep, src) if isinstance(src, np.ndarray) else torch.equal(keep, src.detach())
    ck.require(same, "input_modified", "the constructor modified its dense input")
    if isinstance(rmax_passed, list):
        ck.label("rmax_list")
        ck.require(rmax_passed == list(rmax), "rmax_list_modified", "the constructor changed the caller's rmax list from %s to %s" % (rmax, rmax_passed))

    # (1) shape / kind / rank chain
    if not ck.require(isinstance(x, T.TT), "result_type", "not a TT"):
        return ck.verdict()
    ck.require(x.is_ttm == bool(M), "kind", "is_ttm=%s" % x.is_ttm)
    ck.require([int(n) for n in x.N] == list(N), "shape_N", "N=%s requested %s" % (x.N, N))
    if M and x.is_ttm:
        ck.require([int(m) for m in x.M] == list(M), "shape_M", "M=%s requested %s" % (x.M, M))
    R = [int(r) for r in x.R]
    exp_core = [[R[k], M[k], N[k], R[k + 1]] if M else [R[k], N[k], R[k + 1]] for k in range(d)] if len(R) == d + 1 else None
    ck.require(len(R) == d + 1 and len(x.cores) == d and [list(c.shape) for c in x.cores] == exp_core, "core_shapes",
               "cores %s do not match N/M/R %s %s %s" % ([list(c.shape) for c in x.cores], N, M, R))
    if ck.failed is not None:
        return ck.verdict()
    ck.require(R[0] == 1 and R[-1] == 1, "boundary_ranks", "R=%s" % R)
    ck.require(all(c.dtype == DT[dt] for c in x.cores), "dtype", "core dtype %s input %s" % (x.cores[0].dtype, DT[dt]))

    # (3) rank bounds
    caps = None
    if rmax is not None:
        caps = rmax if isinstance(rmax, list) else [1] + [rmax] * (d - 1) + [1]
        ck.require(all(R[k] <= caps[k] for k in range(1, d)), "rank_le_rmax", "R=%s rmax=%s" % (R, caps))
    dimcap = [1] + [int(min(np.prod(dims[:k]), np.prod(dims[k:]))) for k in range(1, d)] + [1]
    ck.require(all(R[k] <= dimcap[k] for k in range(d + 1)), "rank_le_unfolding_dims", "R=%s dims cap %s" % (R, dimcap))
    if ub is not None and eps >= 1e3 * u:
        ck.require(all(R[k] <= ub[k] for k in range(d + 1)), "rank_le_unfolding_rank",
                   "R=%s exceeds the constructed unfolding ranks %s (eps=%g)" % (R, ub, eps))
    binding = caps is not None and any(R[k] >= caps[k] for k in range(1, d))
    if binding:
        # a rank that merely equals its cap is not a truncation by rmax: the cap binds only if the same call without rmax
        # returns a larger rank somewhere (then, and only then, the statement withdraws the accuracy clause)
        kw_free = {k_: v_ for k_, v_ in kw.items() if k_ != "rmax"}
        try:
            xf = lib(lambda: T.TT(src, shape, **kw_free) if shape is not None else T.TT(src, **kw_free))
            binding = any(int(xf.R[k]) > caps[k] for k in range(1, d))
        except core.LibraryException:
            pass
    if binding:
        ck.label("rmax_binding")
    truncated = [R[k] < dimcap[k] for k in range(1, d)]
    if truncated and all(truncated):
        ck.label("all_bonds_truncated")
    ck.label("bonds_truncated:%d" % min(sum(truncated), 3))

    # label: does the threshold tie exactly with the last singular value of the first unfolding?
    if fam == "c":
        A0 = Aw.to(DT[dt]).reshape(dims[0], -1)
        s = torch.linalg.svd(A0, full_matrices=False)[1]
        ep = eps / np.sqrt(d - 1)
        thr = ep * torch.linalg.norm(s).numpy()
        if float(np.abs(s.numpy()[-1]) ** 2) == float(thr ** 2):
            ck.label("exact_tie_last_sv")
        ck.label("eps:" + case["eps_variant"])

    # (2) accuracy
    if not binding:
        got = dense(x.cores)
        nA = fro(Aw)
        size = float(np.prod(dims))
        allow = eps * nA * (1 + 1e-9) + 64 * u * math.sqrt(size) * nA
        ck.bound(fro(got.reshape(Aw.shape) - Aw), allow, "accuracy", "eps=%g R=%s family=%s" % (eps, R, fam))
    ck.nontrivial = any(truncated)
    return ck.verdict()
