"""C17 - the compiled backend obeys the same contracts as the Python implementation."""
import math
import numpy as np
import torch
from hypothesis import strategies as st

from vt import core, gen
from vt.core import Checker, lib, dense, dense_abs, DT, UNIT, fro
from vt.props import c11, c12

RULE = ("[amen_solve cases include C12's complex128 systems: the call with use_cpp=True has to return and meet the same bound.] The C++ extension is compiled from the working tree's cpp/ sources (cache keyed by their hash) and loaded next "
        "to the Python implementation in the same process. Cases come from C12's generator (SPD / Laplacian / diagonally "
        "dominant systems x preconditioner None/'c'/'r' x max_full x x0 x eps x seed) for amen_solve and from C11's "
        "generator (orders 1-6, both spectra, complex128 / float32 / complex64 included, initial guess) for fast_matvec. Oracle per case, for "
        "BOTH backends: the C12 residual bound (5 eps ||b||) resp. the C11 product bound (3 eps ||ref||); mutual agreement "
        "(||A(x_cpp-x_py)|| <= 10 eps ||b||, ||y_cpp-y_py|| <= 6 eps ||ref||); whenever Python returns, C++ must return "
        "(exception, abort or signal = violation: every case is journaled before it runs and a dead shard is turned into a "
        "replay); operands bit-identical after the C++ call. Non-trivial: preconditioner set or x0/initial given or eps >= 1e-5.")
BUDGET = {"quick": 1280, "thorough": 20000}
FLOORS = {"quick": {"routine:amen_solve": 100, "routine:fast_matvec": 100, "prec:c": 20, "prec:r": 20, "guess": 40}}
SHRINK = {"quick": False, "thorough": True}
JOURNAL = True
TIMEOUT = {"quick": 2400, "thorough": 6 * 3600}
ASSUMPTIONS = ["extension compiled with -std=c++20 (the repository's setup.py says c++17, which the installed torch rejects)",
               "torch.manual_seed(lib_seed) pins the Python backend; the C++ backend draws from torch's global generator too"]


def prepare(tier):
    from vt import cppbuild
    return {"VERIF_CPP_DIR": cppbuild.build()}


@st.composite
def strategy_case(draw):
    if draw(st.booleans()):
        c = draw(c12.strategy_case())
        c["routine"] = "amen_solve"
        c["local_solver"] = 1
        return c
    c = draw(c11.strategy_case().filter(lambda x: x["routine"] == "fast_matvec" and x.get("family") is None))
    return c


def strategy(tier):
    return strategy_case()


def features(case):
    return {"routine": case["routine"], "order": len(case["N"]), "prec": case.get("prec"), "dt": case.get("dt", "f64")}


def _snap(tts):
    return [[c.clone() for c in t.cores] for t in tts if t is not None]


def _same(tts, snaps):
    k = 0
    for t in tts:
        if t is None:
            continue
        if len(t.cores) != len(snaps[k]) or not all(a.shape == b.shape and torch.equal(a, b) for a, b in zip(t.cores, snaps[k])):
            return False
        k += 1
    return True


def execute(case):
    T = core.tt()
    ck = Checker()
    if not T.cpp_enabled() or not getattr(T._dmrg, "_flag_use_cpp", False):
        raise core.HarnessError("C++ backend not loaded (solvers / _dmrg flags)")
    routine = case["routine"]
    ck.label("routine:" + routine, "order:%d" % len(case["N"]))
    eps = case["eps"]
    if routine == "amen_solve":
        N = case["N"]
        d = len(N)
        # the same operands as C12 builds (scaled operator / right-hand side, zero / unit / A@ones right-hand sides, zero, far-off,
        # right-hand-side and unit initial guesses): the statement quantifies over the C12 input classes
        A, b, x0, Ac, bc, solver12, it12 = c12.build_operands(T, ck, case)
        ck.label("max_full:%d" % case["max_full"])
        if x0 is not None:
            ck.label("guess")
        kw = dict(eps=eps, preconditioner=case["prec"], max_full=case["max_full"], verbose=False,
                  local_iterations=case.get("gmres", [40, 2])[0], resets=case.get("gmres", [40, 2])[1])
        torch.manual_seed(case["lib_seed"])
        try:
            xp = lib(lambda: T.solvers.amen_solve(A, b, x0=x0, use_cpp=False, local_solver=1, **kw))
        except core.LibraryException as e:
            ck.label("python_backend_rejected")
            ck.info["python_error"] = e.bucket
            return ck.verdict()
        snaps = _snap([A, b, x0])
        torch.manual_seed(case["lib_seed"])
        xc = lib(lambda: T.solvers.amen_solve(A, b, x0=x0, use_cpp=True, **kw))
        ck.require(_same([A, b, x0], snaps), "operand_modified_by_cpp", "the C++ amen_solve changed A, b or x0")
        Ad, bd = dense(Ac), dense(bc)
        nb = fro(bd)
        for name, x in (("python", xp), ("cpp", xc)):
            if not ck.require(isinstance(x, T.TT) and not x.is_ttm and [int(n) for n in x.N] == list(N), "shape:" + name,
                              "%s solution kind/shape" % name):
                return ck.verdict()
        xpd, xcd = dense(xp.cores), dense(xc.cores)
        if not ck.require(bool(torch.isfinite(xcd).all()), "finite:cpp", "C++ solution has inf/nan"):
            return ck.verdict()
        ck.bound(fro(torch.tensordot(Ad, xpd, dims=d) - bd), c12.C_EPS * eps * nb, "residual:python")
        ck.bound(fro(torch.tensordot(Ad, xcd, dims=d) - bd), c12.C_EPS * eps * nb, "residual:cpp",
                 "class=%s prec=%s max_full=%d ranks=%s" % (case["class"], case["prec"], case["max_full"], xc.R))
        ck.bound(fro(torch.tensordot(Ad, xcd - xpd, dims=d)), 2 * c12.C_EPS * eps * nb, "backends_disagree")
        ck.nontrivial = case["prec"] is not None or x0 is not None or eps >= 1e-5
        return ck.verdict()

    # fast_matvec
    dt = case["dt"]
    u = UNIT[dt]
    N, M = case["N"], case["M"]
    d = len(N)
    g = core.rng(case["seed"])
    c1 = c11._operand(case, N, M, case["R1"], g, 0)
    c2 = c11._operand(case, N, None, case["R2"], g, 1)
    if case.get("scale_exp", 0):
        # all bounds are relative: the operands may have any norm (an absolute truncation threshold shows only for small norms)
        ck.label("scaled:1e%d" % case["scale_exp"])
        c1[case["seed"] % d] = c1[case["seed"] % d] * (10.0 ** case["scale_exp"])
        if abs(case["scale_exp"]) <= 20:       # (beyond that the product of two scaled operands is not representable: one operand only, as in C11)
            c2[(case["seed"] // 3) % d] = c2[(case["seed"] // 3) % d] * (10.0 ** case["scale_exp"])
    A, x = T.TT(core.clone_cores(c1)), T.TT(core.clone_cores(c2))
    ck.label("dt:" + dt, "spectrum:" + case["spectrum"])
    init = None
    if "init_R" in case:
        ck.label("guess")
        init = T.TT(core.make_cores({"N": M, "R": case["init_R"], "dt": dt, "mode": "gauss", "seed": case["init_seed"]}))
    elif case.get("init_is_operand") and list(M) == list(N):
        init = x
        ck.label("guess", "guess_is_operand")
    ref = torch.tensordot(dense(c1), dense(c2), dims=d)
    nref = fro(ref)
    if nref == 0:
        ck.label("zero_product")
    torch.manual_seed(case["lib_seed"])
    try:
        yp = lib(lambda: A.fast_matvec(x, eps=eps, initial=init, use_cpp=False))
    except core.LibraryException as e:
        ck.label("python_backend_rejected")
        return ck.verdict()
    snaps = _snap([A, x, init])
    torch.manual_seed(case["lib_seed"])
    yc = lib(lambda: A.fast_matvec(x, eps=eps, initial=init, use_cpp=True))
    ck.require(_same([A, x, init], snaps), "operand_modified_by_cpp", "the C++ dmrg_mv changed A, x or the initial guess")
    for name, y in (("python", yp), ("cpp", yc)):
        if not ck.require(isinstance(y, T.TT) and not y.is_ttm and [int(n) for n in y.N] == list(M), "shape:" + name,
                          "%s result kind/shape %s expected %s" % (name, getattr(y, "N", None), M)):
            return ck.verdict()
    ck.require(all(c.dtype == DT[dt] for c in yc.cores), "dtype:cpp", "C++ result dtype %s" % yc.cores[0].dtype)
    ypd, ycd = dense(yp.cores), dense(yc.cores)
    rnd = 256 * (d + 2) * u * fro(torch.tensordot(dense_abs(c1), dense_abs(c2), dims=d))
    ck.bound(fro(ypd - ref), c11.C_EPS * eps * nref + rnd, "accuracy:python")
    ck.bound(fro(ycd - ref), c11.C_EPS * eps * nref + rnd, "accuracy:cpp", "eps=%g ranks=%s" % (eps, yc.R))
    ck.bound(fro(ycd - ypd), 2 * c11.C_EPS * eps * nref + 2 * rnd, "backends_disagree")
    ck.nontrivial = init is not None or eps >= 1e-5
    return ck.verdict()
