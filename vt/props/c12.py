"""C12 - AMEn solve returns a solution with relative residual at most C*eps."""
import math
import numpy as np
import torch
from hypothesis import strategies as st

from vt import core, gen
from vt.core import Checker, lib, dense, DT, UNIT, fro

RULE = ("[complex128: 1/4 of the cases apply a diagonal unitary similarity per mode to the operator (same spectrum, Hermitian where it was symmetric) and draw complex right-hand sides / initial guesses.] Square systems of order 2-5 with modes 2-12 (<= 2000 unknowns) from three well-conditioned classes built by the "
        "checker: SPD = sum of <=3 Kronecker products of SPD factors (overall condition <= 50), Laplacian-like = "
        "sum_k I x..x (tridiag(-1,2,-1)+sigma I) x..x I in its rank-2 TT form, diagonally dominant = I + E with "
        "||E||_F = 0.3 and ranks 1-3; right-hand side = Gaussian TT of ranks 1-4 (not built from a low-rank solution); "
        "eps log-uniform in [1e-10,1e-3]; preconditioner None/'c'/'r'; max_full 500 (direct local solve) or 0 (iterative); "
        "local_solver 1 (GMRES; Krylov length x restarts (40,2) default, (15,6) or (10,10) so that restarted cycles really run) or 2 (BiCGSTAB); right-hand side and operator scaled by 10^{0,+-3,+-6}; x0 None, a random TT, the zero tensor / a TT with one zero core, or the right-hand side itself; the seed of the library's internal randomness. "
        "Oracle: x is a TT tensor of shape b.N and ||A x - b|| <= 5 eps ||b|| with A x formed densely by the checker. "
        "Non-trivial: iterative local solver used, or preconditioner set, or x0 given.")
BUDGET = {"quick": 1280, "thorough": 32000}
FLOORS = {"quick": {"dt:c128": 150, "class:spd": 100, "class:laplace": 100, "class:dd": 100, "prec:c": 100, "prec:r": 100,
                    "solver:gmres": 60, "solver:bicgstab": 60, "solver:direct_if_small": 150, "x0": 100}}
SHRINK = {"quick": False, "thorough": True}
ASSUMPTIONS = ["use_cpp=False (C17 covers the compiled backend)", "torch.manual_seed(lib_seed) pins the internal randomness",
               "C = 5 (calibrated worst 0.47 on direct/GMRES paths)"]
C_EPS = 5.0
CASE_TIMEOUT = {"quick": 90, "thorough": 240}      # a single solve takes well under a second; see run.py (watchdog)


@st.composite
def strategy_case(draw):
    cls = draw(st.sampled_from(["spd", "laplace", "dd"]))
    d = draw(st.integers(2, 5))
    N = draw(gen.modes(d, d, (2, 3, 4, 5, 6, 8, 10, 12), maxnumel=2000, distinct_bias=0.4))
    N = [max(2, n) for n in N]
    while int(np.prod(N)) > 2000:
        i = int(np.argmax(N))
        N[i] = max(2, N[i] // 2)
    case = {"class": cls, "N": N, "seed": draw(gen.SEED), "lib_seed": draw(gen.SEED),
            "eps": 10 ** draw(st.floats(-10, -3)),
            "prec": draw(st.sampled_from([None, None, "c", "r"])),
            "max_full": draw(st.sampled_from([500, 0])),
            "local_solver": draw(st.sampled_from([1, 1, 2])),
            "gmres": draw(st.sampled_from([[40, 2], [40, 2], [15, 6], [10, 10]])),
            "Rb": draw(gen.ranks(d, 4))}
    if cls == "spd":
        case["terms"] = draw(st.integers(1, 3))
        case["cond"] = draw(st.sampled_from([2, 10, 50]))
    elif cls == "laplace":
        case["sigma"] = draw(st.sampled_from([0.0, 0.5]))
    else:
        case["RE"] = draw(gen.ranks(d, 3))
    # the residual clause is relative: scaling the right-hand side or the operator by 10^k must not matter
    case["scale_b"] = draw(st.sampled_from([0, 0, 0, 0, -6, -3, 3, 6, -170, 170, -250, 250]))
    case["scale_A"] = draw(st.sampled_from([0, 0, 0, 0, -6, -3, 3, 6, -120, 120]))
    if abs(case["scale_b"] - case["scale_A"]) > 280:
        case["scale_A"] = 0          # the solution itself (~ 10^(scale_b - scale_A)) has to be representable
    # special right-hand sides: the zero tensor, or a unit tensor e_(0,..,0) together with the initial guess e_(0,..,0,1)
    # (the guess is orthogonal to b, so the interfaces <b, x0> vanish exactly)
    # or b = A @ ones, which the solver's default start tensor (all ones) already solves exactly
    case["b_kind"] = draw(st.sampled_from(["random"] * 16 + ["zero", "unit_pair", "A_ones"]))
    if draw(st.floats(0, 1)) < 0.3:
        case["x0_R"] = draw(gen.ranks(d, 4))
        case["x0_scale"] = draw(st.sampled_from([0, 0, 0, 8, -8]))      # an initial guess far from / far below the solution
        # the zero tensor is the classical start vector of an iterative solver: the whole tensor, or one zero core
        case["x0_zero"] = draw(st.sampled_from([None, None, None, None, "zeros", "zero_core"]))
    elif draw(st.floats(0, 1)) < 0.15:
        case["x0_is_rhs"] = True        # amen_solve(A, b, x0=b): the right-hand side as initial guess
    # complex data: the same classes after a diagonal unitary similarity per mode (Hermitian positive definite / Laplacian-like /
    # diagonally dominant with the same spectrum), complex right-hand side and initial guess
    case["dt"] = draw(st.sampled_from(["f64", "f64", "f64", "c128"]))
    # the documented option for operators whose cores are band matrices (the Laplacian-like class is tridiagonal): the local
    # operator of the iterative solvers is then applied band by band
    if cls == "laplace":
        case["band"] = draw(st.sampled_from([-1, -1, 1, 2]))
    # the rank of the local solution is chosen by the residual (default) or by its Frobenius norm
    case["trunc_norm"] = draw(st.sampled_from(["res", "res", "res", "fro"]))
    return case


def strategy(tier):
    return strategy_case()


def features(case):
    it = case["max_full"] == 0
    return {"class": case["class"], "prec": case["prec"], "iterative": it,
            "local_solver": case["local_solver"] if it else 0, "order": len(case["N"]), "x0": "x0_R" in case,
            "dt": case.get("dt", "f64")}


def stack_sum(list_of_cores):
    """TT-matrix cores of the sum of several TT-matrices (block stacking) - checker's own construction."""
    d = len(list_of_cores[0])
    out = []
    for k in range(d):
        cs = [c[k] for c in list_of_cores]
        r0 = sum(c.shape[0] for c in cs) if k > 0 else 1
        r1 = sum(c.shape[-1] for c in cs) if k < d - 1 else 1
        big = torch.zeros([r0] + list(cs[0].shape[1:-1]) + [r1], dtype=cs[0].dtype)
        a = b = 0
        for c in cs:
            big[a:a + c.shape[0], ..., b:b + c.shape[-1]] = c
            if k > 0:
                a += c.shape[0]
            if k < d - 1:
                b += c.shape[-1]
        out.append(big)
    return out


def build_system(case):
    N = case["N"]
    d = len(N)
    g = core.rng(case["seed"])
    cls = case["class"]
    if cls == "spd":
        terms = []
        c1 = case["cond"] ** (1.0 / d)
        for t in range(case["terms"]):
            cs = []
            for n in N:
                Q = torch.linalg.qr(core.payload([n, n], "f64", "gauss", g))[0]
                lam = torch.logspace(0, math.log10(c1), n, dtype=torch.float64)
                S = Q @ torch.diag(lam) @ Q.T
                S = 0.5 * (S + S.T)
                cs.append(S.reshape(1, n, n, 1))
            terms.append(cs)
        A = stack_sum(terms)
    elif cls == "laplace":
        A = []
        for k, n in enumerate(N):
            L = 2 * torch.eye(n, dtype=torch.float64) - torch.diag(torch.ones(n - 1, dtype=torch.float64), 1) \
                - torch.diag(torch.ones(n - 1, dtype=torch.float64), -1) + case["sigma"] * torch.eye(n, dtype=torch.float64)
            I = torch.eye(n, dtype=torch.float64)
            if k == 0:
                c = torch.zeros(1, n, n, 2, dtype=torch.float64)
                c[0, :, :, 0] = L
                c[0, :, :, 1] = I
            elif k == d - 1:
                c = torch.zeros(2, n, n, 1, dtype=torch.float64)
                c[0, :, :, 0] = I
                c[1, :, :, 0] = L
            else:
                c = torch.zeros(2, n, n, 2, dtype=torch.float64)
                c[0, :, :, 0] = I
                c[1, :, :, 0] = L
                c[1, :, :, 1] = I
            A.append(c)
    else:
        E = core.make_cores({"N": N, "M": N, "R": case["RE"], "dt": "f64", "mode": "gauss", "seed": case["seed"] + 3})
        nE = fro(dense(E))
        E[0] = E[0] * (0.3 / nE)
        I = [torch.eye(n, dtype=torch.float64).reshape(1, n, n, 1) for n in N]
        A = stack_sum([I, E])
    dt = case.get("dt", "f64")
    if dt == "c128":
        Ac = []
        for k, c in enumerate(A):
            th = torch.rand(N[k], generator=g, dtype=torch.float64) * (2 * math.pi)
            ph = torch.polar(torch.ones(N[k], dtype=torch.float64), th)
            Ac.append(c.to(torch.complex128) * ph.reshape(1, -1, 1, 1) * ph.conj().reshape(1, 1, -1, 1))
        A = Ac
    b = core.make_cores({"N": N, "R": case["Rb"], "dt": dt, "mode": "gauss", "seed": case["seed"] + 5})
    if case.get("b_kind") == "zero":
        kz = case["seed"] % d
        b[kz] = torch.zeros_like(b[kz])
    elif case.get("b_kind") == "A_ones":
        b = [c.sum(dim=2) for c in A]
    elif case.get("b_kind") == "unit_pair":
        b = []
        for n in N:
            c = torch.zeros(1, n, 1, dtype=DT[dt])
            c[0, 0, 0] = 1.0
            b.append(c)
    return A, b


def build_operands(T, ck, case):
    """Build the operands of one case (shared with C17, which runs the same classes on both backends)."""
    N = case["N"]
    d = len(N)
    eps = case["eps"]
    Ac, bc = build_system(case)
    if case.get("scale_b", 0):
        kb = case["seed"] % d
        bc[kb] = bc[kb] * (10.0 ** case["scale_b"])
        ck.label("scaled_b")
    if case.get("scale_A", 0):
        ka = (case["seed"] // 3) % d
        Ac[ka] = Ac[ka] * (10.0 ** case["scale_A"])
        ck.label("scaled_A")
    A = T.TT(core.clone_cores(Ac))
    b = T.TT(core.clone_cores(bc))
    it = case["max_full"] == 0
    solver = "direct_if_small" if not it else ("gmres" if case["local_solver"] == 1 else "bicgstab")
    if it and case["local_solver"] == 1 and case.get("gmres", [40, 2])[0] < 40:
        ck.label("gmres_short_restarts")
    ck.label("dt:" + case.get("dt", "f64"), "class:" + case["class"], "prec:%s" % case["prec"], "solver:" + solver, "order:%d" % d,
             "eps_decade:%d" % int(math.floor(math.log10(eps))))
    x0 = None
    if "x0_R" in case:
        ck.label("x0")
        x0c = core.make_cores({"N": N, "R": case["x0_R"], "dt": case.get("dt", "f64"), "mode": "gauss", "seed": case["seed"] + 7})
        if case.get("x0_zero") == "zero_core":
            kz = case["seed"] % len(N)
            x0c[kz] = torch.zeros_like(x0c[kz])
        if case.get("x0_scale", 0):
            ks = (case["seed"] // 7) % len(N)
            x0c[ks] = x0c[ks] * (10.0 ** case["x0_scale"])
            ck.label("x0_far")
        x0 = T.TT(x0c) if case.get("x0_zero") != "zeros" else T.zeros(list(N), dtype=DT[case.get("dt", "f64")])
        if case.get("x0_zero"):
            ck.label("x0_zero")
    if case.get("band", -1) >= 0:
        ck.label("band_diagonal")
    if case.get("trunc_norm", "res") != "res":
        ck.label("trunc_norm:" + case["trunc_norm"])
    if case.get("b_kind", "random") != "random":
        ck.label("b:" + case["b_kind"])
    if case.get("b_kind") == "unit_pair":
        x0c = []
        for j, n in enumerate(N):
            c = torch.zeros(1, n, 1, dtype=DT[case.get("dt", "f64")])
            c[0, (1 if (j == len(N) - 1 and n > 1) else 0), 0] = 1.0
            x0c.append(c)
        x0 = T.TT(x0c)
    if case.get("x0_is_rhs") and x0 is None:
        x0 = b
        ck.label("x0", "x0_is_rhs")
    return A, b, x0, Ac, bc, solver, it


def execute(case):
    T = core.tt()
    ck = Checker()
    A, b, x0, Ac, bc, solver, it = build_operands(T, ck, case)
    N = case["N"]
    d = len(N)
    eps = case["eps"]
    torch.manual_seed(case["lib_seed"])
    x = lib(lambda: T.solvers.amen_solve(A, b, x0=x0, eps=eps, preconditioner=case["prec"], max_full=case["max_full"],
                                        local_solver=case["local_solver"], use_cpp=False, verbose=False,
                                        band_diagonal=case.get("band", -1), trunc_norm=case.get("trunc_norm", "res"),
                                        local_iterations=case.get("gmres", [40, 2])[0], resets=case.get("gmres", [40, 2])[1]))
    if not ck.require(isinstance(x, T.TT) and not x.is_ttm and [int(n) for n in x.N] == list(N), "shape",
                      "solution kind/shape wrong: %s" % (getattr(x, "N", type(x)),)):
        return ck.verdict()
    Ad = dense(Ac)
    bd = dense(bc)
    xd = dense(x.cores)
    if not ck.require(bool(torch.isfinite(xd).all()), "finite", "solution contains inf/nan"):
        return ck.verdict()
    res = fro(torch.tensordot(Ad, xd, dims=d) - bd)
    ck.bound(res, C_EPS * eps * fro(bd), "residual:" + solver, "eps=%g class=%s prec=%s solver=%s ranks=%s" % (
        eps, case["class"], case["prec"], solver, x.R))
    ck.nontrivial = it or case["prec"] is not None or x0 is not None
    return ck.verdict()
