"""C06 - operations never change the value of their operands (histories of public operations)."""
from vt.props import c05
from vt.props.c05 import strategy, strategy_case, features, BUDGET, SHRINK, enumerate_cases, ENUM_DOC, FUZZ, from_bytes  # noqa

RULE = ("Same model-based history generator as C05 (programs of up to 30 public operations over a pool of live objects, "
        "operands chosen by construction, views such as t(), conj(), to_ttm(), slices, detach(), sum(index) fed into later "
        "operations, optional initial-guess arguments filled from the pool). Before each operation every live pool object is "
        "snapshotted (core values, ranks, shape, dtype); after it every object other than the receiver of a documented "
        "in-place operation (set_core, reduce_dims; grad.watch/unwatch only toggle requires_grad) must have the same "
        "ranks, shape and dtype and bit-identical cores - or, if cores were re-gauged, the same dense value to 1e-10. "
        "Non-trivial: a pooled optional argument was exercised or an in-place operation is followed by a further "
        "operation on the same object. Distinct = program signature.")
FLOORS = {"quick": {"has_inplace": 600, "optional_arg": 300, "op:sdiv": 50, "op:fast_matvec_init": 30}}
ASSUMPTIONS = ["value-based notion of 'unchanged' as in the statement (dense value, ranks, shape, dtype); a write that restores "
               "the value is not flagged", "a library exception raised by an operation is recorded, the operands must still be intact"]


def execute(case):
    return c05.execute(case, mode="immutable")
