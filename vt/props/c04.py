"""C04 - TT-matrix algebra equals dense linear-operator algebra."""
import numpy as np
import torch
from hypothesis import strategies as st

from vt import core, gen
from vt.core import Checker, lib, dense, dense_abs, DT, UNIT, MANT, fro

RULE = ("Hypothesis draws an operator expression (A@x, x@A, A@B, A@dense with 0-3 batch dims incl. non-contiguous "
        "inputs, t(), A+-B, A*B, A+-s, s*A, A/s, -A, A**B), orders 1-4, row/column/inner mode sizes drawn as "
        "independent (mostly pairwise distinct) lists from {1..5}, independent rank profiles 1-4, dtype and payload "
        "seeds (70% small integers -> bit-exact oracle). Oracle: tensordot/elementwise expression on the checker's own "
        "dense contraction (M1..Md x N1..Nd). Non-trivial: some rank>1 and the row, column (and inner) size lists "
        "are not all equal. Distinct = structural signature.")
BUDGET = {"quick": 12000, "thorough": 900000}
FLOORS = {"quick": {"op:matvec": 300, "op:matmat": 300, "op:dense": 300, "rectangular": 2000, "batch:3": 30}}
ASSUMPTIONS = ["dense reference = checker's own contraction; tensor scalars share the operand dtype"]

SZ = (1, 2, 3, 4, 5)


@st.composite
def strategy_case(draw):
    op = draw(st.sampled_from(["matvec", "vecmat", "matmat", "dense"] * 3 + ["t", "add", "sub", "mul", "sadd", "ssub",
                                                                            "rsub", "smul", "rmul", "sdiv", "neg", "kron"]))
    d = draw(st.integers(1, 4))
    lim = 1500 if op in ("matmat",) else 3000
    M = draw(gen.modes(d, d, SZ, maxnumel=60))
    N = draw(gen.modes(d, d, SZ, maxnumel=60))
    dt = draw(st.sampled_from(gen.DTYPES_ALL))
    mode = "int" if draw(st.floats(0, 1)) < 0.7 else "gauss"
    A = draw(gen.tt_spec(N=N, M=M, dt=dt, mode=mode, rmax=4))
    case = {"op": op, "A": A}
    if op == "matvec":
        case["x"] = draw(gen.tt_spec(N=N, dt=dt, mode=mode, rmax=4))
    elif op == "vecmat":
        case["x"] = draw(gen.tt_spec(N=M, dt=dt, mode=mode, rmax=4))
    elif op == "matmat":
        K = draw(gen.modes(d, d, SZ, maxnumel=40))
        case["B"] = draw(gen.tt_spec(N=K, M=N, dt=dt, mode=mode, rmax=3))
    elif op == "dense":
        case["batch"] = draw(st.lists(st.integers(1, 3), min_size=0, max_size=3))
        case["noncontig"] = draw(st.sampled_from(["no", "transpose", "stride"]))
        case["xseed"] = draw(gen.SEED)
    elif op in ("add", "sub", "mul"):
        case["B"] = draw(gen.tt_spec(N=N, M=M, dt=dt, mode=mode, rmax=4))
    elif op == "kron":
        d2 = draw(st.integers(1, 2))
        case["B"] = draw(gen.tt_spec(N=draw(gen.modes(d2, d2, (1, 2, 3), maxnumel=9)),
                                     M=draw(gen.modes(d2, d2, (1, 2, 3), maxnumel=9)), dt=dt, mode=mode, rmax=3))
    elif op in ("sadd", "ssub"):
        kinds = ["int", "float", "npfloat64", "t0d", "t1", "t0d_i64", "t0d_other"] + (["complex"] if core.is_complex(dt) else [])
        case["s"] = draw(gen.scalar(kinds))
    elif op in ("smul",):
        kinds = ["int", "float", "npfloat64", "npint", "npfloat32", "t0d", "t1", "t0d_i64", "t0d_other"] + (["complex"] if core.is_complex(dt) else [])
        case["s"] = draw(gen.scalar(kinds))
    elif op in ("rsub", "rmul"):
        kinds = ["int", "float"] + (["complex"] if core.is_complex(dt) else [])
        case["s"] = draw(gen.scalar(kinds))
    elif op == "sdiv":
        s = draw(gen.scalar(["int", "float", "npfloat64", "npint", "npfloat32", "t0d", "t1", "t0d_i64"] + (["complex"] if core.is_complex(dt) else [])))
        if s["value"] == 0 or s["value"] == [0, 0] or s["value"] == [0.0, 0.0]:
            s["value"] = 2 if s["kind"] != "complex" else [2.0, 1.0]
        case["s"] = s
    return case


def strategy(tier):
    return strategy_case()


def features(case):
    f = {"op": case["op"], "order": len(case["A"]["N"])}
    if "s" in case:
        f["scalar_kind"] = case["s"]["kind"]
    return f


def execute(case):
    T = core.tt()
    ck = Checker()
    op = case["op"]
    As = case["A"]
    dt = As["dt"]
    u = UNIT[dt]
    M, N, rA = As["M"], As["N"], As["R"]
    d = len(N)
    ck.label("op:" + op, "dt:" + dt, "order:%d" % d, "payload:" + As["mode"])
    Ac = core.make_cores(As)
    A = T.TT(core.clone_cores(Ac))
    Ad = dense(Ac)
    Aa = dense_abs(Ac)
    exact = As["mode"] == "int"
    rect = M != N
    exp_R = None
    exp_kind = True  # result is an operator
    big = any(r > 1 for r in rA)

    if op in ("matvec", "vecmat"):
        xs = case["x"]
        xc = core.make_cores(xs)
        x = T.TT(core.clone_cores(xc))
        xd, xa = dense(xc), dense_abs(xc)
        if op == "matvec":
            res = lib(lambda: A @ x)
            ref = torch.tensordot(Ad, xd, dims=d) if d > 0 else None
            ref_abs = torch.tensordot(Aa, xa, dims=d)
        else:
            res = lib(lambda: x @ A)
            ref = torch.tensordot(xd, Ad, dims=d)
            ref_abs = torch.tensordot(xa, Aa, dims=d)
        exp_R = [a * b for a, b in zip(rA, xs["R"])]
        exp_kind = False
        big = big and any(r > 1 for r in xs["R"])
    elif op == "matmat":
        Bs = case["B"]
        Bc = core.make_cores(Bs)
        B = T.TT(core.clone_cores(Bc))
        res = lib(lambda: A @ B)
        ref = torch.tensordot(Ad, dense(Bc), dims=d)
        ref_abs = torch.tensordot(Aa, dense_abs(Bc), dims=d)
        exp_R = [a * b for a, b in zip(rA, Bs["R"])]
        rect = not (M == N == Bs["N"])
        if len({tuple(M), tuple(N), tuple(Bs["N"])}) == 3:
            ck.label("three_distinct_size_lists")
        big = big and any(r > 1 for r in Bs["R"])
    elif op == "dense":
        batch = case["batch"]
        nb = len(batch)
        ck.label("batch:%d" % nb, "noncontig:" + case["noncontig"])
        g = core.rng(case["xseed"])
        nc = case["noncontig"]
        shp = list(batch) + list(N)
        if nc == "transpose" and len(shp) >= 2:
            xin = core.payload(shp[::-1], dt, As["mode"], g).permute(list(range(len(shp)))[::-1])
        elif nc == "stride":
            xin = core.payload(shp[:-1] + [2 * shp[-1]], dt, As["mode"], g)[..., ::2]
        else:
            xin = core.payload(shp, dt, As["mode"], g)
        keep = xin.clone()
        res = lib(lambda: A @ xin)
        ck.require(torch.equal(keep, xin), "dense_operand_modified", "A @ dense changed its dense operand")
        xw = core.widen(keep)
        ref = torch.tensordot(xw, Ad, dims=(list(range(nb, nb + d)), list(range(d, 2 * d))))
        ref_abs = torch.tensordot(xw.abs(), Aa, dims=(list(range(nb, nb + d)), list(range(d, 2 * d))))
        if not ck.require(torch.is_tensor(res), "result_type", "A @ dense returned %s" % type(res).__name__):
            return ck.verdict()
        ck.require(res.dtype == DT[dt], "dtype", "A @ dense dtype %s" % res.dtype)
        if not ck.require(list(res.shape) == list(batch) + list(M), "shape",
                          "A @ dense shape %s, expected batch+M = %s" % (list(res.shape), list(batch) + list(M))):
            return ck.verdict()
        if exact and float(ref_abs.max()) < MANT[dt]:
            ck.label("exact")
            ck.require(core.bit_equal(res, ref), "value_exact",
                       lambda: "A @ dense differs, max |diff| %g" % float((core.widen(res) - ref).abs().max()))
        else:
            ck.bound(fro(core.widen(res) - ref), 32 * (d + 2) * max(rA) * u * max(fro(ref_abs), 1e-300), "value_roundoff")
        ck.nontrivial = big and rect
        if rect:
            ck.label("rectangular")
        return ck.verdict()
    elif op == "t":
        res = lib(lambda: A.t())
        perm = list(range(d, 2 * d)) + list(range(d))
        ref = Ad.permute(perm)
        ref_abs = Aa.permute(perm)
        exp_R = rA
    elif op in ("add", "sub", "mul"):
        Bs = case["B"]
        Bc = core.make_cores(Bs)
        B = T.TT(core.clone_cores(Bc))
        f = {"add": lambda a, b: a + b, "sub": lambda a, b: a - b, "mul": lambda a, b: a * b}[op]
        res = lib(f, A, B)
        ref = f(Ad, dense(Bc))
        ref_abs = Aa * dense_abs(Bc) if op == "mul" else Aa + dense_abs(Bc)
        if op == "mul":
            exp_R = [a * b for a, b in zip(rA, Bs["R"])]
        else:
            exp_R = [1] + [a + b for a, b in zip(rA[1:-1], Bs["R"][1:-1])] + [1]
        big = big and any(r > 1 for r in Bs["R"])
    elif op == "kron":
        Bs = case["B"]
        Bc = core.make_cores(Bs)
        B = T.TT(core.clone_cores(Bc))
        res = lib(lambda: A ** B)
        d2 = len(Bs["N"])
        full = torch.tensordot(Ad, dense(Bc), dims=0)  # M N M2 N2
        perm = list(range(d)) + list(range(2 * d, 2 * d + d2)) + list(range(d, 2 * d)) + list(range(2 * d + d2, 2 * d + 2 * d2))
        ref = full.permute(perm)
        ref_abs = torch.tensordot(Aa, dense_abs(Bc), dims=0).permute(perm)
        exp_R = rA + Bs["R"][1:]
    elif op == "neg":
        res = lib(lambda: -A)
        ref, ref_abs, exp_R = -Ad, Aa, rA
    else:
        s = case["s"]
        sv = gen.build_scalar(s, dt)
        sc = gen.scalar_exact_value(s, dt)
        ck.label("scalar:" + s["kind"])
        if not gen.is_dyadic(s):
            exact = False
            ck.label("scalar_not_dyadic")
        one = torch.ones_like(Aa)
        if op == "sadd":
            res = lib(lambda: A + sv); ref = Ad + sc; ref_abs = Aa + abs(sc) * one
        elif op == "ssub":
            res = lib(lambda: A - sv); ref = Ad - sc; ref_abs = Aa + abs(sc) * one
        elif op == "rsub":
            res = lib(lambda: sv - A); ref = sc - Ad; ref_abs = Aa + abs(sc) * one
        elif op == "smul":
            res = lib(lambda: A * sv); ref = Ad * sc; ref_abs = Aa * abs(sc)
        elif op == "rmul":
            res = lib(lambda: sv * A); ref = Ad * sc; ref_abs = Aa * abs(sc)
        elif op == "sdiv":
            res = lib(lambda: A / sv); ref = Ad / sc; ref_abs = Aa / abs(sc)
            m, e = np.frexp(abs(sc))
            if m != 0.5:
                exact = False
        if op in ("sadd", "ssub", "rsub"):
            exp_R = [1] + [r + 1 for r in rA[1:-1]] + [1]
        else:
            exp_R = rA if sc != 0 else None

    if rect:
        ck.label("rectangular")
    ck.nontrivial = big and rect
    if not ck.require(isinstance(res, T.TT), "result_type", "result is %s, not a TT" % type(res).__name__):
        return ck.verdict()
    if not ck.require(res.is_ttm == exp_kind, "result_kind", "is_ttm=%s, expected %s" % (res.is_ttm, exp_kind)):
        return ck.verdict()
    ck.require(all(c.dtype == DT[dt] for c in res.cores), "dtype",
               lambda: "result core dtypes %s, operand dtype %s" % ([str(c.dtype) for c in res.cores], DT[dt]))
    got = dense(res.cores)
    shape_meta = (list(res.M) + list(res.N)) if res.is_ttm else list(res.N)
    if not ck.require(list(got.shape) == list(ref.shape) and shape_meta == list(ref.shape), "shape",
                      "result shape %s (meta %s), dense expression shape %s" % (list(got.shape), shape_meta, list(ref.shape))):
        return ck.verdict()
    if exp_R is not None:
        ck.require(list(res.R) == list(exp_R), "rank_structure", "result ranks %s, expected %s" % (res.R, exp_R))
    if exact:
        ck.label("exact")
        ck.require(core.bit_equal(got, ref), "value_exact",
                   lambda: "integer payload: result differs from dense expression, max |diff| %g" % float((got - ref).abs().max()))
    else:
        ck.bound(fro(got - ref), 32 * (len(ref.shape) + 2) * max(rA) * u * max(fro(ref_abs), 1e-300), "value_roundoff")
    return ck.verdict()
