"""C20 - the TT linear layer computes the dense affine map it represents."""
import torch
from hypothesis import strategies as st

from vt import core, gen
from vt.core import Checker, lib, dense, DT, UNIT, fro

RULE = ("Hypothesis draws size_in/size_out (1-4 modes, sizes 1-5, independent lists so mostly rectangular), a rank "
        "list with interior ranks 1-3, dtype float32/float64, initializer He/Glo, 0-3 leading batch dims (sizes 1-3, "
        "optionally non-contiguous input), a non-zero bias and seeds. Oracle: forward == tensordot(x, W) + b with W the "
        "checker's contraction of the layer's cores (size_out x size_in); output shape; parameter registration; "
        "autograd gradients of a random linear functional w.r.t. every core and the bias equal those of the dense map "
        "and (float64) central finite differences. Non-trivial: >=2 modes, size_in != size_out, >=1 batch dim.")
BUDGET = {"quick": 5000, "thorough": 480000}
FLOORS = {"quick": {"batch:0": 300, "batch:3": 300, "init:Glo": 1000, "dt:f32": 1000, "rectangular": 2000, "fd_checked": 500}}
ASSUMPTIONS = ["torch.manual_seed(lib_seed) pins the layer initialisation"]


@st.composite
def strategy_case(draw):
    d = draw(st.integers(1, 4))
    size_in = draw(gen.modes(d, d, (1, 2, 3, 4, 5), maxnumel=120))
    size_out = draw(gen.modes(d, d, (1, 2, 3, 4, 5), maxnumel=120))
    rank = draw(gen.ranks(d, 3))
    return {"size_in": size_in, "size_out": size_out, "rank": rank, "dt": draw(st.sampled_from(["f32", "f64"])),
            "init": draw(st.sampled_from(["He", "Glo"])),
            "batch": draw(st.lists(st.integers(1, 3), min_size=0, max_size=3)),
            "noncontig": draw(st.booleans()), "lib_seed": draw(gen.SEED), "xseed": draw(gen.SEED)}


def strategy(tier):
    return strategy_case()


def features(case):
    return {"d": len(case["size_in"]), "dt": case["dt"], "init": case["init"], "nbatch": len(case["batch"])}


def execute(case):
    T = core.tt()
    ck = Checker()
    si, so, rank, dt = case["size_in"], case["size_out"], case["rank"], case["dt"]
    d = len(si)
    nb = len(case["batch"])
    u = UNIT[dt]
    ck.label("dt:" + dt, "init:" + case["init"], "batch:%d" % nb, "modes:%d" % d)
    if si != so:
        ck.label("rectangular")
    torch.manual_seed(case["lib_seed"])
    # the argument lists stay with the caller, who may go on using them (here: extended after the construction)
    arg_in, arg_out, arg_rank = list(si), list(so), list(rank)
    layer = lib(lambda: T.nn.LinearLayerTT(arg_in, arg_out, arg_rank, dtype=DT[dt], initializer=case["init"]))
    if case["xseed"] % 2:
        arg_in.append(2)
        arg_out.append(3)
        arg_rank.append(1)
        ck.label("caller_lists_extended")
    g = core.rng(case["xseed"])
    with torch.no_grad():
        layer.bias.copy_(core.payload(list(so), dt, "gauss", g))
    shp = list(case["batch"]) + list(si)
    if case["noncontig"] and len(shp) >= 2:
        ck.label("noncontig")
        x = core.payload(shp[::-1], dt, "gauss", g).permute(list(range(len(shp)))[::-1])
    else:
        x = core.payload(shp, dt, "gauss", g)
    Wt = core.payload(list(case["batch"]) + list(so), "f64", "gauss", g)

    # --- parameter registration ------------------------------------------------------------------
    params = dict(layer.named_parameters())
    cores = list(layer.cores)
    ck.require(len(cores) == d and all([int(c.shape[0]), int(c.shape[1]), int(c.shape[2]), int(c.shape[3])] ==
                                       [rank[k], so[k], si[k], rank[k + 1]] for k, c in enumerate(cores)), "core_shapes",
               "core shapes %s do not match size_out x size_in with ranks %s" % ([list(c.shape) for c in cores], rank))
    ck.require(len(params) == d + 1 and "bias" in params and all(p.requires_grad for p in params.values())
               and all(any(p is c for p in params.values()) for c in cores), "parameters",
               "named_parameters = %s" % sorted(params))
    ck.require(all(p.dtype == DT[dt] for p in params.values()), "param_dtype", "parameter dtype")
    if ck.failed is not None:
        return ck.verdict()

    # --- forward -----------------------------------------------------------------------------------
    out = lib(lambda: layer(x))
    W = dense([c.detach() for c in cores])               # size_out + size_in, float64
    Wabs = dense([c.detach().abs() for c in cores])
    xw = core.widen(x)
    ref = torch.tensordot(xw, W, dims=(list(range(nb, nb + d)), list(range(d, 2 * d)))) + core.widen(layer.bias.detach())
    ref_abs = torch.tensordot(xw.abs(), Wabs, dims=(list(range(nb, nb + d)), list(range(d, 2 * d)))) + core.widen(layer.bias.detach()).abs()
    if not ck.require(torch.is_tensor(out) and list(out.shape) == list(case["batch"]) + list(so), "forward_shape",
                      "forward shape %s, expected batch+size_out %s" % (list(out.shape) if torch.is_tensor(out) else type(out), list(case["batch"]) + list(so))):
        return ck.verdict()
    ck.require(out.dtype == DT[dt], "forward_dtype", "output dtype %s" % out.dtype)
    C = 64 * (d + 2) * max(rank)
    ck.bound(fro(core.widen(out.detach()) - ref), C * u * max(fro(ref_abs), 1e-300), "forward_value")

    # --- gradients ---------------------------------------------------------------------------------
    L = (core.widen(out) * Wt).sum()
    grads = lib(lambda: torch.autograd.grad(L, cores + [layer.bias], allow_unused=True))
    rc = [c.detach().to(torch.float64).clone().requires_grad_(True) for c in cores]
    rb = layer.bias.detach().to(torch.float64).clone().requires_grad_(True)
    Wr = dense(rc, keep_graph=True)
    Lr = ((torch.tensordot(xw, Wr, dims=(list(range(nb, nb + d)), list(range(d, 2 * d)))) + rb) * Wt).sum()
    gr = torch.autograd.grad(Lr, rc + [rb])
    ac = [c.detach().to(torch.float64).abs().clone().requires_grad_(True) for c in cores]
    ab = rb.detach().abs().clone().requires_grad_(True)
    La = ((torch.tensordot(xw.abs(), dense(ac, keep_graph=True), dims=(list(range(nb, nb + d)), list(range(d, 2 * d)))) + ab) * Wt.abs()).sum()
    ga = torch.autograd.grad(La, ac + [ab])
    for k, (a, b, s) in enumerate(zip(grads, gr, ga)):
        name = "bias" if k == d else "core%d" % k
        if not ck.require(a is not None and list(a.shape) == list(b.shape), "grad_shape", "gradient of %s missing or misshaped" % name):
            break
        ck.bound(fro(core.widen(a) - b), 4 * C * u * max(fro(s), 1e-300), "grad_value", name)
    if dt == "f64" and ck.failed is None:
        ck.label("fd_checked")
        h = 1e-4
        with torch.no_grad():
            dirs = [core.payload(list(p.shape), "f64", "gauss", g) for p in cores + [layer.bias]]
            plist = cores + [layer.bias]
            base = [p.detach().clone() for p in plist]

            def Lat(sgn):
                for p, b0, v in zip(plist, base, dirs):
                    p.copy_(b0 + sgn * h * v)
                return float((core.widen(layer(x)) * Wt).sum())
            fd = (Lat(+1) - Lat(-1)) / (2 * h)
            for p, b0 in zip(plist, base):
                p.copy_(b0)
        an = float(sum((a * v).sum() for a, v in zip(grads, dirs)))
        scale = float(sum((s * v.abs()).sum() for s, v in zip(ga, dirs)))
        ck.bound(abs(fd - an), 1e-5 * max(scale, 1e-300), "grad_finite_difference", "fd %g analytic %g" % (fd, an))
    ck.nontrivial = d >= 2 and si != so and nb >= 1
    return ck.verdict()
