"""C10 - reshape, permute and QTT conversion preserve the tensor up to the given eps."""
import math
import numpy as np
import torch
from hypothesis import strategies as st

from vt import core, gen
from vt.core import Checker, lib, dense, DT, UNIT, fro
from vt.props.c02 import scramble

RULE = ("(operand norms are additionally scaled by 10^k, k in {-8,-4,0,3,6}, on a drawn core: all bounds are relative) Sources of order 1-6 with modes from {1,2,3,4,6,8} (<=4096 entries), ranks 1-4, real and complex, float32, "
        "optionally gauge-scrambled. reshape: a random *ordered factorisation* of the element count (prime factors "
        "shuffled and grouped into <=6 parts) with 0-2 singleton modes inserted anywhere, singleton modes in the source "
        "at front/middle/end; operators with independently factorised row and column sizes. permute: every permutation "
        "(drawn uniformly; orders up to 6), tensors and operators. to_qtt on power-of-two modes (mode_size 2 and 4), "
        "square operators; qtt_to_tens round trip. eps: default or log-uniform in [1e-14,1e-1], raised to 10x the "
        "representation roundoff so the bound stays a bound in eps. Oracle: requested N/M exactly; "
        "||dense(result)-reshape/permute(dense(x))|| <= 4 eps ||x|| + 64 d u prod||C_k||_F (to_qtt included). Non-trivial: reshape that splits and "
        "merges or touches a singleton source mode; permutation with >=2 inversions; QTT with >=2 cores split.")
BUDGET = {"quick": 6000, "thorough": 400000}
FLOORS = {"quick": {"op:reshape": 1200, "op:reshape_ttm": 300, "op:permute": 800, "op:to_qtt": 300, "op:qtt_roundtrip": 200,
                    "trailing_singleton_source": 200, "complex": 1500, "eps_active": 800, "eps_default": 800}}
ASSUMPTIONS = ["dense reshape is row-major (torch.reshape); for operators rows and columns are regrouped independently",
               "to_qtt (tensor and operator) is held to the same 4 eps ||x|| bound as reshape"]

SRC = (1, 2, 3, 4, 6, 8)


def _primes(n):
    out = []
    p = 2
    while n > 1:
        while n % p == 0:
            out.append(p)
            n //= p
        p += 1
    return out


@st.composite
def factorisation(draw, total, maxparts=6, ones=True):
    pr = _primes(total)
    if pr:
        pr = list(draw(st.permutations(pr)))
    k = draw(st.integers(1, max(1, min(maxparts, len(pr))))) if pr else 1
    cuts = sorted(draw(st.lists(st.integers(1, max(1, len(pr) - 1)), min_size=k - 1, max_size=k - 1, unique=True))) if len(pr) > 1 and k > 1 else []
    parts = []
    prev = 0
    for c in cuts + [len(pr)]:
        parts.append(int(np.prod(pr[prev:c])) if c > prev else 1)
        prev = c
    if not pr:
        parts = [1]
    if ones:
        for _ in range(draw(st.sampled_from([0, 0, 1, 2]))):
            parts.insert(draw(st.integers(0, len(parts))), 1)
    return parts[:8]


@st.composite
def strategy_case(draw):
    op = draw(st.sampled_from(["reshape", "reshape", "reshape", "reshape_ttm", "permute", "permute", "permute_ttm", "to_qtt",
                               "to_qtt_ttm", "qtt_roundtrip"]))
    dt = draw(st.sampled_from(["f64", "f64", "c128", "c128", "f32", "c64"]))
    case = {"op": op, "dt": dt, "seed": draw(gen.SEED), "scramble": draw(st.sampled_from([0, 0, 0, 1, 1e2, 1e4])),
            "scale_exp": draw(st.sampled_from([0, 0, 0, -8, -4, 3, 6, -20, 20, -160, 160])), "scale_core": draw(st.integers(0, 5)),
            "eps": draw(st.sampled_from([None, None, "log", "log", "log"]))}
    if case["eps"] == "log":
        case["eps"] = 10 ** draw(st.floats(-14, -1))
    if op == "reshape":
        N = draw(gen.modes(1, 6, SRC, maxnumel=4096, distinct_bias=0.2))
        case["N"] = N
        case["R"] = draw(gen.ranks(len(N), 4))
        case["target"] = draw(factorisation(int(np.prod(N))))
    elif op == "reshape_ttm":
        d = draw(st.integers(1, 3))
        M = draw(gen.modes(d, d, (1, 2, 3, 4, 6), maxnumel=64, distinct_bias=0.2))
        N = draw(gen.modes(d, d, (1, 2, 3, 4, 6), maxnumel=64, distinct_bias=0.2))
        case["M"], case["N"] = M, N
        case["R"] = draw(gen.ranks(d, 3))
        tm = draw(factorisation(int(np.prod(M)), 4, ones=False))
        tn_ = draw(factorisation(int(np.prod(N)), 4, ones=False))
        L = max(len(tm), len(tn_)) + draw(st.sampled_from([0, 0, 1]))
        for lst in (tm, tn_):
            while len(lst) < L:
                lst.insert(draw(st.integers(0, len(lst))), 1)
        case["target"] = [[a, b] for a, b in zip(tm, tn_)]
    elif op in ("permute", "permute_ttm"):
        if op == "permute":
            N = draw(gen.modes(1, 6, (1, 2, 3, 4, 5), maxnumel=3000))
            case["N"] = N
        else:
            d = draw(st.integers(1, 4))
            case["M"] = draw(gen.modes(d, d, (1, 2, 3), maxnumel=81))
            case["N"] = draw(gen.modes(d, d, (1, 2, 3), maxnumel=81))
        d = len(case["N"])
        case["R"] = draw(gen.ranks(d, 4))
        case["perm"] = list(draw(st.permutations(list(range(d)))))
        case["as_tuple"] = draw(st.booleans())
        case["argform"] = draw(gen.int_form(("neg", "np")))
    elif op in ("to_qtt", "qtt_roundtrip"):
        ms = draw(st.sampled_from([2, 2, 4]))
        sizes = (1, 2, 4, 8, 16, 32) if ms == 2 else (1, 4, 16, 64)
        N = draw(gen.modes(1, 4, sizes, maxnumel=4096, distinct_bias=0.2))
        case["N"] = N
        case["R"] = draw(gen.ranks(len(N), 4))
        case["mode_size"] = ms
    elif op == "to_qtt_ttm":
        d = draw(st.integers(1, 3))
        ms = draw(st.sampled_from([2, 2, 3]))
        N = draw(gen.modes(d, d, (1, 2, 4, 8) if ms == 2 else (1, 3, 9), maxnumel=64 if ms == 2 else 81, distinct_bias=0.2))
        if ms == 3 and draw(st.integers(0, 3)) == 0:
            N = [243]       # 3**5: math.log(243, 3) = 4.999...
            d = 1
        if all(n == 1 for n in N):
            N[0] = ms       # an all-ones operator has no QTT shape; whether it must raise is not C10's business
        case["N"], case["M"] = N, list(N)
        case["R"] = draw(gen.ranks(d, 3))
        case["mode_size"] = ms
    return case


def strategy(tier):
    return strategy_case()


def features(case):
    N = case["N"]
    f = {"op": case["op"], "dt": case["dt"], "complex": core.is_complex(case["dt"]),
         "trailing_singleton_source": len(N) > 1 and N[-1] == 1 and ("M" not in case or case["M"][-1] == 1),
         "eps_default": case["eps"] is None}
    return f


def execute(case):
    T = core.tt()
    ck = Checker()
    op, dt = case["op"], case["dt"]
    u = UNIT[dt]
    cplx = core.is_complex(dt)
    wdt = "c128" if cplx else "f64"
    N, M, R = case["N"], case.get("M"), case["R"]
    d = len(N)
    spec = {"N": N, "R": R, "dt": wdt, "mode": "gauss", "seed": case["seed"]}
    if M:
        spec["M"] = M
    cores = core.make_cores(spec)
    g = core.rng(case["seed"] + 17)
    if case["scramble"]:
        cores = scramble(cores, case["scramble"], g, wdt)
        ck.label("scrambled")
    if case.get("scale_exp", 0):
        # the statement says "without ever changing ... scale": any representable scale, i.e. up to 10^+-160 in double and
        # 10^+-20 in single precision (the squares of such numbers over- / underflow), when the cores are well balanced
        e = case["scale_exp"]
        if dt in ("f32", "c64"):
            e = max(-20, min(20, e)) if not case["scramble"] else max(-4, min(4, e))
        k = case["scale_core"] % d
        cores[k] = cores[k] * (10.0 ** e)
        ck.label("scaled:1e%d" % e)
        if abs(e) >= 20:
            ck.label("scaled:extreme")
    cores = [c.to(DT[dt]).contiguous() for c in cores]
    x = T.TT([c.clone() for c in cores])
    xd = dense(cores)
    nx = fro(xd)
    prodn = 1.0
    for c in cores:
        prodn *= fro(c)
    ck.label("op:" + op, "dt:" + dt, "order:%d" % d)
    if cplx:
        ck.label("complex")
    if d > 1 and N[-1] == 1 and (not M or M[-1] == 1):
        ck.label("trailing_singleton_source")
    if any(n == 1 and (not M or M[i] == 1) for i, n in enumerate(N)):
        ck.label("singleton_source_mode")
    round_allow = 64 * max(d, 6) * u * prodn
    eps = case["eps"]
    if eps is None:
        ck.label("eps_default")
        eps_used = None
        eps_term = 0.0
        eff = 0.0
    else:
        floor_eps = 10 * round_allow / nx if nx > 0 else eps
        eff = max(eps, min(floor_eps, 0.1))
        ck.label("eps_active" if eff == eps else "eps_raised")
        eps_used = eff

    def kw():
        return {} if eps_used is None else {"eps": eps_used}

    if op in ("reshape", "reshape_ttm"):
        if op == "reshape":
            target = list(case["target"])
            sform = ["plain", "plain", "plain", "tuple", "np"][case["seed"] % 5]
            if sform != "plain":
                ck.label("argform:" + sform)
                t2 = tuple(target) if sform == "tuple" else [np.int64(t) for t in target]
                try:
                    res = lib(lambda: T.reshape(x, t2, **kw()))
                except core.LibraryException:
                    ck.label("argform_rejected")
                    return ck.verdict()
            else:
                res = lib(lambda: T.reshape(x, list(target), **kw()))
            ref = xd.reshape(target)
            tM, tN = None, target
        else:
            target = [tuple(t) for t in case["target"]]
            res = lib(lambda: T.reshape(x, list(target), **kw()))
            tM, tN = [t[0] for t in target], [t[1] for t in target]
            ref = xd.reshape(tM + tN)
        dfin = len(target)
        src_dims = [n * (M[i] if M else 1) for i, n in enumerate(N)]
        tgt_dims = [a * b for a, b in zip(tM, tN)] if tM else tN
        # does it split and merge?
        cs, ct = np.cumprod([s for s in src_dims if s > 1] or [1]), np.cumprod([s for s in tgt_dims if s > 1] or [1])
        splits = any(c not in cs for c in ct)
        merges = any(c not in ct for c in cs)
        if splits:
            ck.label("splits")
        if merges:
            ck.label("merges")
        ck.nontrivial = (splits and merges) or any(s == 1 for s in src_dims)
        _check(ck, T, res, ref, tN, tM, dt, 4 * eff * nx + 2 * round_allow, nx)
        _rmax_clause(ck, T, case, res, lambda rm: T.reshape(x, list(target), rmax=rm, **kw()))
        return ck.verdict()

    if op in ("permute", "permute_ttm"):
        perm = case["perm"]
        arg = tuple(perm) if case["as_tuple"] else list(perm)
        aform = case.get("argform", "plain")
        if aform != "plain":
            # torch-style negative / numpy-integer dims: accept-or-correct (see gen.apply_int_form)
            ck.label("argform:" + aform)
            a2 = gen.apply_int_form(perm, aform, d)
            a2 = tuple(a2) if case["as_tuple"] else a2
            try:
                res = lib(lambda: T.permute(x, a2, **kw()))
            except core.LibraryException:
                ck.label("argform_rejected")
                return ck.verdict()
        else:
            res = lib(lambda: T.permute(x, arg, **kw()))
        if M:
            ref = xd.permute(perm + [p + d for p in perm])
            tM, tN = [M[p] for p in perm], [N[p] for p in perm]
        else:
            ref = xd.permute(perm)
            tM, tN = None, [N[p] for p in perm]
        inv = sum(1 for i in range(d) for j in range(i + 1, d) if perm[i] > perm[j])
        ck.label("inversions:%d" % min(inv, 6))
        ck.nontrivial = inv >= 2
        _check(ck, T, res, ref, tN, tM, dt, 4 * eff * nx + 2 * round_allow * (1 + inv), nx)
        return ck.verdict()

    ms = case["mode_size"]
    if op in ("to_qtt", "qtt_roundtrip"):
        res = lib(lambda: x.to_qtt(mode_size=ms, **kw()))
        tN = []
        nsplit = 0
        for n in N:
            k = int(round(math.log(n, ms))) if n > 1 else 0
            if k > 1:
                tN += [ms] * k
                nsplit += 1
            else:
                tN.append(n)
        ck.label("cores_split:%d" % min(nsplit, 3))
        ck.nontrivial = nsplit >= 2
        # the statement's bound: eps relative to ||x|| (the earlier version of this check scaled eps by prod ||C_k||_F here,
        # which accommodated - and hid - the tensor branch of to_qtt truncating the raw cores one by one; see DESIGN 12)
        allow = 4 * eff * nx + 2 * round_allow * (1 + nsplit)
        if op == "to_qtt":
            _check(ck, T, res, xd.reshape(tN), tN, None, dt, allow, nx)
            _rmax_clause(ck, T, case, res, lambda rm: x.to_qtt(mode_size=ms, rmax=rm, **kw()))
            return ck.verdict()
        if not ck.require(isinstance(res, T.TT), "result_type", "to_qtt returned %s" % type(res).__name__):
            return ck.verdict()
        back = lib(lambda: res.qtt_to_tens(list(N)))
        _check(ck, T, back, xd, list(N), None, dt, allow, nx)
        return ck.verdict()

    if op == "to_qtt_ttm":
        res = lib(lambda: x.to_qtt(mode_size=ms, **kw()))
        tN = []
        for n in N:
            k = int(round(math.log(n, ms))) if n > 1 else 0
            tN += [ms] * k
        if not tN:
            # every mode has size 1: no QTT shape exists (covered by C18 if it must raise); accept any outcome here
            return ck.verdict()
        ck.nontrivial = sum(1 for n in N if n > 2) >= 2
        _check(ck, T, res, xd.reshape(tN + tN), tN, list(tN), dt, 4 * eff * nx + 2 * round_allow, nx)
        _rmax_clause(ck, T, case, res, lambda rm: x.to_qtt(mode_size=ms, rmax=rm, **kw()))
        return ck.verdict()
    raise core.HarnessError(op)


def _rmax_clause(ck, T, case, res, call):
    """`rmax` is documented as the maximum rank of the result of reshape / to_qtt: a fifth of the cases repeat the call with a
    small cap and require the right shape and every rank <= rmax (nothing is promised about the value then)."""
    if ck.failed is not None or case["seed"] % 5 != 0 or not isinstance(res, T.TT):
        return
    rm = 1 + (case["seed"] // 5) % 3
    ck.label("rmax_option")
    if max(int(r) for r in res.R) > rm:
        ck.label("rmax_binding")
    capped = lib(lambda: call(rm))
    if ck.require(isinstance(capped, T.TT) and capped.is_ttm == res.is_ttm and list(capped.N) == list(res.N), "rmax_shape", "call with rmax returned another kind / shape"):
        ck.require(all(int(r) <= rm for r in capped.R), "rmax_not_honoured", "ranks %s with rmax=%d" % (capped.R, rm))


def _check(ck, T, res, ref, tN, tM, dt, allow, nx):
    if not ck.require(isinstance(res, T.TT), "result_type", "result is %s" % type(res).__name__):
        return
    if not ck.require(res.is_ttm == (tM is not None), "result_kind", "is_ttm=%s" % res.is_ttm):
        return
    if not ck.require([int(n) for n in res.N] == list(tN) and (tM is None or [int(m) for m in res.M] == list(tM)), "shape",
                      "result N=%s%s, requested N=%s%s" % (res.N, (" M=%s" % res.M) if tM is not None else "", tN,
                                                           (" M=%s" % tM) if tM is not None else "")):
        return
    ck.require(all(c.dtype == DT[dt] for c in res.cores), "dtype", "dtype changed to %s" % res.cores[0].dtype)
    got = dense(res.cores)
    ck.bound(fro(got.reshape(ref.shape) - ref), allow, "value", "||x||=%g" % nx)
