"""C11 - DMRG and AMEn products approximate the exact product within eps."""
import math
import numpy as np
import torch
from hypothesis import strategies as st

from vt import core, gen
from vt.core import Checker, lib, dense, dense_abs, DT, UNIT, fro

RULE = ("Hypothesis draws a routine (fast_matvec, dmrg_hadamard, amen_mv, amen_mm; Python backend), compatible operands "
        "of order 1-6 with modes 1-6 (dense operator <= ~8000 entries), ranks 1-4, two spectra (Gaussian cores = exact "
        "rank; sum of rank-one terms weighted rho^k, rho in {0.5,0.1,0.01} = decaying, so truncation is active at loose "
        "eps), eps log-uniform in [1e-12,1e-1], the seed of the library's internal randomness, an optional user initial "
        "guess of arbitrary ranks 1-5, float64 and (DMRG routines) complex128, float32 and complex64 (single precision with eps in [1e-5,1e-1]). Oracle: result kind and shape, "
        "||dense(y)-ref|| <= 3 eps ||ref|| + roundoff with ref the dense product of the checker's contractions. "
        "Non-trivial: truncation active (decaying spectrum and eps>=1e-6) or user initial guess or order<=2 or a "
        "singleton mode. Distinct = structural signature (seeds removed).")
BUDGET = {"quick": 4800, "thorough": 100000}
FLOORS = {"quick": {"routine:fast_matvec": 300, "routine:dmrg_hadamard": 300, "routine:amen_mv": 300, "routine:amen_mm": 300,
                    "order:1": 100, "order:2": 200, "initial_guess": 500, "spectrum:decay": 600, "complex": 200}}
SHRINK = {"quick": True, "thorough": True}
ASSUMPTIONS = ["use_cpp=False (the compiled backend is C17's)", "torch.manual_seed(lib_seed) pins the internal random guess/kick",
               "operands with an exactly zero product are not generated (relative error undefined)"]
C_EPS = 3.0


def decaying_cores(N, M, r, rho, dt, g):
    d = len(N)
    cores = []
    for k in range(d):
        shp_mid = [N[k]] if M is None else [M[k], N[k]]
        r0 = 1 if k == 0 else r
        r1 = 1 if k == d - 1 else r
        c = torch.zeros([r0] + shp_mid + [r1], dtype=DT[dt])
        for a in range(r):
            v = core.payload(shp_mid, dt, "gauss", g)
            w = (rho ** a) if k == 0 else 1.0
            c[0 if k == 0 else a, ..., 0 if k == d - 1 else a] = v * w
        cores.append(c)
    return cores


@st.composite
def strategy_case(draw):
    if draw(st.integers(0, 59)) == 0:
        # "hidden term" family (from the audit): the product is T1 + c*T2 with T2 orthogonal to T1 in every mode and the user's
        # initial guess is T1 itself, the dominant term
        return {"family": "hidden_term", "routine": draw(st.sampled_from(["fast_matvec", "dmrg_hadamard", "amen_mv"])), "dt": "f64",
                "d": draw(st.sampled_from([5, 6])), "n": draw(st.sampled_from([4, 5, 6])), "eps": draw(st.sampled_from([1e-6, 1e-8])),
                "cmult": draw(st.sampled_from([10.0, 20.0])), "seed": draw(gen.SEED), "lib_seed": draw(gen.SEED),
                "N": [0], "spectrum": "hidden"}
    routine = draw(st.sampled_from(["fast_matvec", "dmrg_hadamard", "amen_mv", "amen_mm"]))
    d = draw(st.sampled_from([1, 2, 2, 3, 3, 4, 5, 6]))
    dt = draw(st.sampled_from(["f64", "f64", "c128", "f32", "c64"])) if routine in ("fast_matvec", "dmrg_hadamard") else "f64"
    lim = 90 if routine != "amen_mm" else 40
    sizes = (1, 2, 3, 4, 5, 6)
    case = {"routine": routine, "dt": dt, "lib_seed": draw(gen.SEED), "seed": draw(gen.SEED),
            "eps": 10 ** draw(st.floats(-12, -1)),
            "spectrum": draw(st.sampled_from(["randn", "decay", "decay"])),
            "scale_exp": draw(st.sampled_from([0, 0, 0, -6, -3, 3, 6, -20, 20, -170, 170, -250, 250]))}
    if dt in ("f32", "c64"):
        # single precision: eps stays above the working precision (below it no multiple of eps can be promised) and the
        # operand scaling inside the float32 range
        case["eps"] = 10 ** draw(st.floats(-5, -1))
        case["scale_exp"] = draw(st.sampled_from([0, 0, -3, 3, -6, 6, -25, 25]))
    if case["spectrum"] == "decay":
        case["rho"] = draw(st.sampled_from([0.5, 0.1, 0.01]))
        case["r"] = draw(st.integers(2, 4))
    if routine == "dmrg_hadamard":
        case["N"] = draw(gen.modes(d, d, sizes, maxnumel=8000, distinct_bias=0.3))
        case["R1"] = draw(gen.ranks(d, 4))
        case["R2"] = draw(gen.ranks(d, 4))
    else:
        case["M"] = draw(gen.modes(d, d, sizes, maxnumel=lim, distinct_bias=0.3))
        case["N"] = draw(gen.modes(d, d, sizes, maxnumel=lim, distinct_bias=0.3))
        case["R1"] = draw(gen.ranks(d, 4 if routine != "amen_mm" else 3))
        case["R2"] = draw(gen.ranks(d, 4 if routine != "amen_mm" else 3))
        if routine == "amen_mm":
            case["K"] = draw(gen.modes(d, d, sizes, maxnumel=lim, distinct_bias=0.3))
    if draw(st.integers(0, 19)) == 0:
        case["zero_operand"] = draw(st.sampled_from([1, 2]))     # one core of that operand is set to zero: the product is the zero tensor
    if draw(st.floats(0, 1)) < 0.35:
        case["init_R"] = draw(gen.ranks(d, 5, rank1_bias=0.1))
        case["init_seed"] = draw(gen.SEED)
    elif draw(st.floats(0, 1)) < 0.15:
        # the second operand itself is handed in as initial guess (a natural warm start when the shapes agree)
        case["init_is_operand"] = True
    return case


def strategy(tier):
    return strategy_case()


def features(case):
    return {"routine": case["routine"], "order": len(case["N"]), "dt": case["dt"], "initial_guess": "init_R" in case,
            "spectrum": case["spectrum"], "family": case.get("family", "generic")}


def _hidden_term(T, ck, case):
    d, n, eps, c = case["d"], case["n"], case["eps"], case["cmult"] * case["eps"]
    g = core.rng(case["seed"])
    routine = case["routine"]
    ck.label("family:hidden_term", "routine:" + routine, "order:%d" % d)
    U = [torch.linalg.qr(core.payload([n, n], "f64", "gauss", g))[0] for _ in range(d)]
    u0 = [Q[:, 0].clone() for Q in U]
    u1 = [Q[:, 1].clone() for Q in U]

    def r1(vs):
        return [v.reshape(1, -1, 1).clone() for v in vs]

    def tt_sum(a, b, cb):           # rank-2 TT cores of a + cb*b (a, b rank-1 given as vectors per mode)
        out = []
        for k in range(d):
            if k == 0:
                out.append(torch.stack([a[k], cb * b[k]], 1).reshape(1, n, 2))
            elif k == d - 1:
                out.append(torch.stack([a[k], b[k]], 0).reshape(2, n, 1))
            else:
                cc = torch.zeros(2, n, 2, dtype=torch.float64)
                cc[0, :, 0] = a[k]
                cc[1, :, 1] = b[k]
                out.append(cc)
        return out
    ref = None
    T1 = T.TT(r1(u0))
    t1d, t2d = dense(r1(u0)), dense(r1(u1))
    ref = t1d + c * t2d
    torch.manual_seed(case["lib_seed"])
    if routine in ("fast_matvec", "amen_mv"):
        Ak = [core.payload([n, n], "f64", "gauss", g) + 3.0 * torch.eye(n, dtype=torch.float64) for _ in range(d)]
        A = T.TT([a.reshape(1, n, n, 1).clone() for a in Ak])
        x1 = [torch.linalg.solve(Ak[k], u0[k]) for k in range(d)]
        x2 = [torch.linalg.solve(Ak[k], u1[k]) for k in range(d)]
        x = T.TT(tt_sum(x1, x2, c))
        if routine == "fast_matvec":
            y = lib(lambda: A.fast_matvec(x, eps=eps, initial=T1, use_cpp=False))
        else:
            y = lib(lambda: T.amen_mv(A, x, x0=T1, eps=eps))
    else:
        w = [core.payload([n], "f64", "gauss", g).abs() + 0.5 for _ in range(d)]
        W = T.TT(r1(w))
        p = T.TT(tt_sum([u0[k] / w[k] for k in range(d)], [u1[k] / w[k] for k in range(d)], c))
        y = lib(lambda: T.dmrg_hadamard(W, p, z0=T1, eps=eps, use_cpp=False))
    if ck.require(isinstance(y, T.TT) and [int(m) for m in y.N] == [n] * d, "shape", "result shape"):
        ck.bound(fro(dense(y.cores) - ref), C_EPS * eps * fro(ref), "accuracy", "hidden term c=%g eps=%g ranks=%s" % (c, eps, y.R))
    ck.nontrivial = True
    return ck.verdict()


def _operand(case, N, M, R, g, seed_off):
    dt = case["dt"]
    if case["spectrum"] == "decay":
        return _maybe_zero(case, decaying_cores(N, M, case["r"], case["rho"], dt, g), seed_off)
    spec = {"N": N, "R": R, "dt": dt, "mode": "gauss", "seed": case["seed"] + seed_off}
    if M is not None:
        spec["M"] = M
    return _maybe_zero(case, core.make_cores(spec), seed_off)


def _maybe_zero(case, cores, seed_off):
    if case.get("zero_operand") == seed_off + 1:
        k = case["seed"] % len(cores)
        cores[k] = torch.zeros_like(cores[k])
    return cores


def execute(case):
    T = core.tt()
    ck = Checker()
    if case.get("family") == "hidden_term":
        return _hidden_term(T, ck, case)
    routine, dt, eps = case["routine"], case["dt"], case["eps"]
    u = UNIT[dt]
    N = case["N"]
    d = len(N)
    g = core.rng(case["seed"])
    ck.label("routine:" + routine, "order:%d" % d, "dt:" + dt, "spectrum:" + case["spectrum"],
             "eps_decade:%d" % int(math.floor(math.log10(eps))))
    if core.is_complex(dt):
        ck.label("complex")
    init = None
    if routine == "dmrg_hadamard":
        c1 = _operand(case, N, None, case["R1"], g, 0)
        c2 = _operand(case, N, None, case["R2"], g, 1)
        a, b = T.TT(core.clone_cores(c1)), T.TT(core.clone_cores(c2))
        ref = dense(c1) * dense(c2)
        ref_abs = dense_abs(c1) * dense_abs(c2)
        outN, outM = N, None
        sizes_all = N
    else:
        M = case["M"]
        c1 = _operand(case, N, M, case["R1"], g, 0)
        a = T.TT(core.clone_cores(c1))
        if routine == "amen_mm":
            K = case["K"]
            c2 = _operand(case, K, N, case["R2"], g, 1)
            outN, outM = K, M
            sizes_all = M + N + K
        else:
            c2 = _operand(case, N, None, case["R2"], g, 1)
            outN, outM = M, None
            sizes_all = M + N
        b = T.TT(core.clone_cores(c2))
        ref = torch.tensordot(dense(c1), dense(c2), dims=d)
        ref_abs = torch.tensordot(dense_abs(c1), dense_abs(c2), dims=d)
    if case.get("scale_exp", 0):
        ck.label("scaled:1e%d" % case["scale_exp"])
        c1[case["seed"] % d] = c1[case["seed"] % d] * (10.0 ** case["scale_exp"])
        a = T.TT(core.clone_cores(c1))
        if routine == "dmrg_hadamard":
            ref = dense(c1) * dense(c2)
            ref_abs = dense_abs(c1) * dense_abs(c2)
        else:
            ref = torch.tensordot(dense(c1), dense(c2), dims=d)
            ref_abs = torch.tensordot(dense_abs(c1), dense_abs(c2), dims=d)
    if "init_R" in case:
        ck.label("initial_guess")
        ispec = {"N": outN, "R": case["init_R"], "dt": dt, "mode": "gauss", "seed": case["init_seed"]}
        if outM is not None:
            ispec["M"] = outM
        init = T.TT(core.make_cores(ispec))
    if case.get("init_is_operand") and init is None:
        if routine in ("dmrg_hadamard",) or (routine in ("fast_matvec", "amen_mv") and case["M"] == case["N"]) or \
                (routine == "amen_mm" and case["M"] == case["N"] == case["K"]):
            init = b
            ck.label("initial_guess_is_operand")
    nref = fro(ref)
    if nref == 0:
        # the exact product is the zero tensor: the routine must still return a TT of the right shape whose value is within
        # the roundoff term of the allowance (exactly zero when an operand has a zero core)
        ck.label("zero_product")
    torch.manual_seed(case["lib_seed"])
    if routine == "fast_matvec":
        y = lib(lambda: a.fast_matvec(b, eps=eps, initial=init, use_cpp=False))
    elif routine == "dmrg_hadamard":
        y = lib(lambda: T.dmrg_hadamard(a, b, z0=init, eps=eps, use_cpp=False))
    elif routine == "amen_mv":
        y = lib(lambda: T.amen_mv(a, b, x0=init, eps=eps))
    else:
        y = lib(lambda: T.amen_mm(a, b, X0=init, eps=eps))
    if not ck.require(isinstance(y, T.TT), "result_type", "result is %s" % type(y).__name__):
        return ck.verdict()
    ttm_out = outM is not None
    if not ck.require(y.is_ttm == ttm_out and [int(n) for n in y.N] == list(outN) and
                      (not ttm_out or [int(m) for m in y.M] == list(outM)), "shape",
                      "result kind/shape is_ttm=%s N=%s, expected N=%s M=%s" % (y.is_ttm, y.N, outN, outM)):
        return ck.verdict()
    ck.require(all(c.dtype == DT[dt] for c in y.cores), "dtype", "result dtype %s" % y.cores[0].dtype)
    got = dense(y.cores)
    allow = C_EPS * eps * nref + 256 * (d + 2) * u * fro(ref_abs)
    ck.bound(fro(got - ref), allow, "accuracy", "eps=%g ranks=%s" % (eps, y.R))
    ck.nontrivial = (case["spectrum"] == "decay" and eps >= 1e-6) or init is not None or d <= 2 or any(s == 1 for s in sizes_all)
    return ck.verdict()
