"""C14 - cross approximation recovers low-rank data and samples only valid indices."""
import math
import numpy as np
import torch
from hypothesis import strategies as st

from vt import core, gen
from vt.core import Checker, lib, dense, DT, UNIT, fro

RULE = ("Targets of order 2-5 with non-uniform modes 2-20 (<= 50000 entries, modes smaller than rank+kick included): "
        "exact TT rank 1-4 (entries looked up in the checker's dense array) or smooth functions of the index sum "
        "(1/(c+s), exp(-a s), cos(s/n)); eps log-uniform in [1e-10,1e-3]; the internal seed; optional start tensor of "
        "random ranks; dmrg_cross(f,N) and function_interpolate(f,x) with one TT argument (univariate f) or a meshgrid "
        "list (multivariate). Oracle: (1) a monitor wrapped around the user function checks every call: integer M x d "
        "matrix with column k in [0,N[k]) for dmrg_cross; float values that are actual entries of the argument tensors "
        "for function_interpolate; the function's values are multiplied by 10^k, k in {0,+-3,+-6,-9} (the clause is relative); "
        "(2) result shape N and ||dense(y)-ref|| <= 5 eps ||ref||. Non-trivial: some mode is "
        "smaller than initial rank + kick (wide enrichment QR) or the modes are non-uniform.")
BUDGET = {"quick": 3200, "thorough": 120000}
FLOORS = {"quick": {"routine:dmrg_cross": 200, "routine:fi_uni": 100, "routine:fi_multi": 100, "small_mode": 150,
                    "target:ttrank": 150, "start_tensor": 80, "scale:1e-6": 40}}
SHRINK = {"quick": False, "thorough": True}
ASSUMPTIONS = ["torch.manual_seed(lib_seed) pins the internal randomness", "kick and nswp are left at their defaults"]
C_EPS = 5.0


@st.composite
def strategy_case(draw):
    routine = draw(st.sampled_from(["dmrg_cross", "dmrg_cross", "fi_uni", "fi_multi"]))
    d = draw(st.integers(2, 5))
    N = [draw(st.sampled_from([2, 3, 4, 5, 6, 8, 10, 12, 16, 20])) for _ in range(d)]
    while int(np.prod(N)) > 50000:
        i = int(np.argmax(N))
        N[i] = max(2, N[i] // 2)
    target = draw(st.sampled_from(["ttrank", "ttrank", "inv", "exp", "cos"])) if routine == "dmrg_cross" else \
        draw(st.sampled_from(["inv", "exp", "cos", "inv"]))
    if routine in ("dmrg_cross", "fi_uni") and draw(st.integers(0, 39)) == 0:
        # exact rank-1 target whose factors are mostly zero (from the audit): the support is 0.24 % of the entries
        target = "sparse1"
        N = [10] * 5
        d = 5
    case = {"routine": routine, "N": N, "target": target, "seed": draw(gen.SEED), "lib_seed": draw(gen.SEED),
            "eps": 10 ** draw(st.floats(-10, -3))}
    if target == "ttrank":
        case["R"] = draw(gen.ranks(d, 4, rank1_bias=0.1))
    if target == "inv":
        case["c"] = draw(st.sampled_from([1.0, 2.0, 10.0]))
    if target == "exp":
        case["a"] = draw(st.sampled_from([0.1, 0.5, 1.0]))
    if draw(st.floats(0, 1)) < 0.25:
        case["start_R"] = draw(gen.ranks(d, 4))
    elif routine in ("fi_uni", "fi_multi") and draw(st.integers(0, 5)) == 0:
        case["start_is_arg"] = True      # function_interpolate(f, x, start_tens=x): the argument itself as a natural first guess
    if routine == "fi_multi" and draw(st.booleans()):
        case["fi_args"] = "tt"
    # the accuracy clause is relative, so the data scale must not matter: the user function's values are multiplied by 10^k
    case["scale10"] = draw(st.sampled_from([0, 0, 0, -3, -6, -9, 3, 6, 156, -156]))
    return case


def strategy(tier):
    return strategy_case()


def features(case):
    return {"routine": case["routine"], "target": case["target"], "order": len(case["N"]), "min_mode": min(case["N"]),
            "start": "start_R" in case}


def _g(case, s):
    t = case["target"]
    if t == "inv":
        return 1.0 / (case["c"] + s)
    if t == "exp":
        return torch.exp(-case["a"] * s)
    if t == "cos":
        return torch.cos(s / float(max(case["N"])))
    raise core.HarnessError(t)


def _fi_multi_tt(T, ck, case, mon, start):
    """function_interpolate with a list of two general (rank-2, Gaussian) argument tensors and f(v) = v0 + 2 v1:
    every row handed to f must be (x1[I], x2[I]) for one multi-index I."""
    N, eps = case["N"], case["eps"]
    d = len(N)
    ck.label("fi_args:tt")
    xs = [T.TT(core.make_cores({"N": N, "R": [1] + [2] * (d - 1) + [1], "dt": "f64", "mode": "gauss", "seed": case["seed"] + 20 + j}))
          for j in range(2)]
    dd = [dense(x.cores).reshape(-1) for x in xs]
    scale = max(float(dd[0].abs().max()), float(dd[1].abs().max()), 1e-300)
    keys = set(zip((dd[0] / scale * 1e9).round().to(torch.int64).tolist(), (dd[1] / scale * 1e9).round().to(torch.int64).tolist()))

    def f(V):
        mon["calls"] += 1
        if mon["bad"] is None:
            if not torch.is_tensor(V) or V.dim() != 2 or V.shape[1] != 2:
                mon["bad"] = "argument is not an M x 2 matrix: %s" % (list(V.shape) if torch.is_tensor(V) else type(V))
            else:
                a = (V[:, 0] / scale * 1e9).round().to(torch.int64).tolist()
                b = (V[:, 1] / scale * 1e9).round().to(torch.int64).tolist()
                for u_, v_ in zip(a, b):
                    if (u_, v_) not in keys and not any((u_ + i, v_ + j) in keys for i in (-1, 0, 1) for j in (-1, 0, 1)):
                        mon["bad"] = "a row handed to f is not (x1[I], x2[I]) for any multi-index I"
                        break
        mon["evals"] += V.shape[0]
        return (V[:, 0] + 2.0 * V[:, 1]) * sc
    sc = 10.0 ** case.get("scale10", 0)
    ck.label("scale:1e%d" % case.get("scale10", 0))
    torch.manual_seed(case["lib_seed"])
    if case.get("start_is_arg"):
        start = xs[1]
        ck.label("start_is_argument")
    y = lib(lambda: T.interpolate.function_interpolate(f, xs, eps=eps, start_tens=start))
    ref = (dd[0] + 2.0 * dd[1]).reshape(N) * sc
    ck.require(mon["bad"] is None, "callback_arguments", str(mon["bad"]))
    ck.require(mon["calls"] > 0, "callback_never_called", "the user function was never called")
    if ck.require(isinstance(y, T.TT) and not y.is_ttm and [int(n) for n in y.N] == list(N), "shape", "result kind/shape"):
        yd = dense(y.cores)
        if ck.require(bool(torch.isfinite(yd).all()), "finite", "result contains inf/nan"):
            ck.bound(fro(yd - ref), C_EPS * eps * fro(ref), "accuracy:fi_multi_tt", "eps=%g ranks=%s" % (eps, y.R))
    ck.nontrivial = min(N) < 5 or len(set(N)) > 1
    return ck.verdict()


def execute(case):
    T = core.tt()
    ck = Checker()
    routine, N, eps = case["routine"], case["N"], case["eps"]
    d = len(N)
    ck.label("routine:" + routine, "target:" + case["target"], "order:%d" % d,
             "eps_decade:%d" % int(math.floor(math.log10(eps))))
    if min(N) < 2 + 2 + 1:
        ck.label("small_mode")
    if len(set(N)) > 1:
        ck.label("nonuniform")
    grids = torch.meshgrid(*[torch.arange(n, dtype=torch.float64) for n in N], indexing="ij")
    ssum = sum(grids)
    if case["target"] == "ttrank":
        Tc = core.make_cores({"N": N, "R": case["R"], "dt": "f64", "mode": "gauss", "seed": case["seed"]})
        ref = dense(Tc)
    elif case["target"] == "sparse1":
        vv = torch.tensor([0.0] * 7 + [1.0, 2.0, 3.0], dtype=torch.float64)
        Tc = [vv.reshape(1, -1, 1).clone() for _ in N]
        ref = dense(Tc)
    else:
        ref = _g(case, ssum)
    sc = 10.0 ** case.get("scale10", 0)
    ref = ref * sc
    ck.label("scale:1e%d" % case.get("scale10", 0))
    start = None
    if "start_R" in case:
        ck.label("start_tensor")
        start = T.TT(core.make_cores({"N": N, "R": case["start_R"], "dt": "f64", "mode": "gauss", "seed": case["seed"] + 9}))
    mon = {"calls": 0, "bad": None, "evals": 0}

    if routine == "dmrg_cross":
        def f(I):
            mon["calls"] += 1
            if mon["bad"] is None:
                if not torch.is_tensor(I) or I.dim() != 2 or I.shape[1] != d or I.shape[0] < 1:
                    mon["bad"] = "index argument is not an M x d matrix: %s" % (list(I.shape) if torch.is_tensor(I) else type(I))
                elif I.dtype not in (torch.int64, torch.int32):
                    mon["bad"] = "index matrix dtype %s is not integer" % I.dtype
                else:
                    for k in range(d):
                        col = I[:, k]
                        if int(col.min()) < 0 or int(col.max()) >= N[k]:
                            mon["bad"] = "column %d has indices in [%d,%d], valid range [0,%d)" % (k, int(col.min()), int(col.max()), N[k])
                            break
            if mon["bad"] is not None:
                # keep the library running on clamped indices; the violation is already recorded
                I = torch.stack([I[:, k].clamp(0, N[k] - 1) for k in range(d)], 1).to(torch.int64) if torch.is_tensor(I) and I.dim() == 2 and I.shape[1] == d else torch.zeros((1, d), dtype=torch.int64)
            mon["evals"] += I.shape[0]
            return ref[tuple(I[:, k].to(torch.int64) for k in range(d))]
        torch.manual_seed(case["lib_seed"])
        y = lib(lambda: T.interpolate.dmrg_cross(f, list(N), eps=eps, x_start=start))
    elif routine == "fi_uni":
        # x[I] = sum_k i_k ; univariate f applied to actual entries of x
        if case["target"] == "sparse1":
            x = T.TT([c_.clone() for c_ in Tc])
            ref = dense(Tc) ** 2 * sc            # f(v) = v*v*sc on the unscaled argument tensor
        else:
            xs = T.meshgrid([torch.arange(n, dtype=torch.float64) for n in N])
            x = xs[0]
            for t in xs[1:]:
                x = x + t
            x = x.round(1e-14)
        vals = torch.unique(dense(x.cores).reshape(-1))

        def f(v):
            mon["calls"] += 1
            if mon["bad"] is None:
                if not torch.is_tensor(v) or not v.dtype.is_floating_point:
                    mon["bad"] = "argument is not a float tensor: %s" % type(v)
                else:
                    flat = v.reshape(-1)
                    pos = torch.searchsorted(vals, flat).clamp(0, len(vals) - 1)
                    near = torch.minimum((vals[pos] - flat).abs(), (vals[(pos - 1).clamp(0)] - flat).abs())
                    if float(near.max()) > 1e-8 * max(1.0, float(vals.abs().max())):
                        mon["bad"] = "value %g passed to f is not an entry of the argument tensor" % float(flat[int(near.argmax())])
            mon["evals"] += v.numel()
            return (v * v if case["target"] == "sparse1" else _g(case, v)) * sc
        torch.manual_seed(case["lib_seed"])
        if case.get("start_is_arg"):
            start = x
            ck.label("start_is_argument")
        xsnap = [c.clone() for c in x.cores]
        y = lib(lambda: T.interpolate.function_interpolate(f, x, eps=eps, start_tens=start))
        ck.require(len(x.cores) == len(xsnap) and all(a.shape == b.shape and torch.equal(a, b) for a, b in zip(x.cores, xsnap)),
                   "argument_modified", "function_interpolate changed its argument tensor")
    else:
        if case.get("fi_args") == "tt":
            return _fi_multi_tt(T, ck, case, mon, start)
        # every argument tensor gets its own value range (100*k + i), so a value taken from the wrong argument is visible
        vecs = [100.0 * k + torch.arange(n, dtype=torch.float64) for k, n in enumerate(N)]
        xs = T.meshgrid(vecs)

        def f(V):
            mon["calls"] += 1
            if mon["bad"] is None:
                if not torch.is_tensor(V) or V.dim() != 2 or V.shape[1] != d:
                    mon["bad"] = "argument is not an M x d matrix: %s" % (list(V.shape) if torch.is_tensor(V) else type(V))
                else:
                    for k in range(d):
                        col = V[:, k] - 100.0 * k
                        if float((col - col.round()).abs().max()) > 1e-8 or float(col.min()) < -1e-8 or float(col.max()) > N[k] - 1 + 1e-8:
                            mon["bad"] = "column %d holds values that are not entries of argument tensor %d" % (k, k)
                            break
            mon["evals"] += V.shape[0]
            off = sum(100.0 * k for k in range(d))
            return _g(case, V.sum(1) - off) * sc
        torch.manual_seed(case["lib_seed"])
        if case.get("start_is_arg"):
            start = xs[0]
            ck.label("start_is_argument")
        y = lib(lambda: T.interpolate.function_interpolate(f, xs, eps=eps, start_tens=start))

    ck.info["function_calls"] = mon["calls"]
    ck.require(mon["bad"] is None, "callback_arguments", str(mon["bad"]))
    ck.require(mon["calls"] > 0, "callback_never_called", "the user function was never called")
    if not ck.require(isinstance(y, T.TT) and not y.is_ttm and [int(n) for n in y.N] == list(N), "shape",
                      "result kind/shape %s, expected %s" % (getattr(y, "N", type(y)), N)):
        return ck.verdict()
    yd = dense(y.cores)
    if not ck.require(bool(torch.isfinite(yd).all()), "finite", "result contains inf/nan"):
        return ck.verdict()
    ck.bound(fro(yd - ref), C_EPS * eps * fro(ref), "accuracy:" + routine, "eps=%g target=%s ranks=%s" % (eps, case["target"], y.R))
    ck.nontrivial = min(N) < 5 or len(set(N)) > 1
    return ck.verdict()
