"""C15 - gradients through TT operations match the dense derivative."""
import numpy as np
import torch
import torch.nn.functional as F
from hypothesis import strategies as st

from vt import core, gen
from vt.core import Checker, lib, dense, fro

RULE = ("Scalar expressions are generated as a chain of 0-2 tensor->tensor operations (+,-,* with another leaf - same shape or a broadcast operand with fewer / size-1 modes -, A@., .@A, "
        "(A@A)@., scalar +,*,/ and reversed -, the same with a one-element tensor scalar that depends on tracked cores (x / dot(y,y)), unary -, mprod, diag round trip, full slicing, pad+slice) followed by a "
        "terminal (linear functional of full(), sum all/subset, dot full/axis, norm plain/squared, bilinear_form, "
        "apply_mask, mixed int/slice indexing, cat, pad, kron, rectangular mprod, rectangular TT-matrix product, "
        "TT-matrix @ dense, LinearLayerTT.forward) over small leaves (order 1-4, modes 1-3, ranks 1-2, float64); a "
        "drawn subset of leaves and of their cores is tracked (requires_grad_ directly or grad.watch). Oracle: the same "
        "expression on dense arrays built from the same leaf cores through the checker's contraction, differentiated by "
        "autograd (agreement at 1e-9 relative), central finite differences along 2 random directions (1e-6), equal "
        "values, and grad.grad / grad.grad_list (tensor list = a drawn ordered subset of all leaves, so mixed orders and operators; both all_in_one settings) returning exactly those derivatives, grouped per tensor, with the core shapes (None for "
        "untracked cores). Non-trivial: >=2 distinct op kinds and a proper subset of cores tracked.")
BUDGET = {"quick": 8000, "thorough": 320000}
FLOORS = {"quick": {"chain:2": 500, "grad_api": 300, "grad_list_mixed_orders": 60, "track:watch": 500, "operator_tracked": 300}}
ASSUMPTIONS = ["norm terminals are evaluated away from zero (non-differentiable there)", "real float64 only"]

CHAIN_OPS = ["add", "sub", "mul", "matvec", "vecmat", "matmat_vec", "sadd", "smul", "sdiv", "rsub", "neg", "mprod", "diag_rt",
             "slice_full", "pad_slice", "sdiv_dep", "smul_dep", "sadd_dep", "ssub_dep", "mul_bc", "add_bc", "sub_bc", "smul_dep0"]
TERMINALS = ["full_lin", "sum_all", "sum_subset", "dot", "dot_axis", "norm", "norm_sq", "bilinear", "mask", "slice_lin",
             "cat_lin", "pad_lin", "kron_lin", "mprod_rect", "rect_matvec", "dense_matvec", "layer"]


@st.composite
def strategy_case(draw):
    d = draw(st.integers(1, 4))
    N = [draw(st.integers(1, 3)) for _ in range(d)]
    if all(n == 1 for n in N):
        N[0] = 2
    M = [draw(st.integers(1, 3)) for _ in range(d)]
    case = {"N": N, "M": M, "seed": draw(gen.SEED),
            "Rx1": draw(gen.ranks(d, 2)), "Rx2": draw(gen.ranks(d, 2)), "RA": draw(gen.ranks(d, 2)), "RB": draw(gen.ranks(d, 2)),
            "chain": [], "terminal": {"op": draw(st.sampled_from(TERMINALS))}}
    for _ in range(draw(st.integers(0, 2))):
        op = {"op": draw(st.sampled_from(CHAIN_OPS))}
        if op["op"] in ("sadd", "smul", "sdiv", "rsub"):
            op["s"] = draw(st.sampled_from([2.0, -1.5, 0.5, 3.0]))
        if op["op"] == "mprod":
            op["mode"] = draw(st.integers(0, d - 1))
        case["chain"].append(op)
    t = case["terminal"]
    if t["op"] in ("sum_subset", "dot_axis"):
        t["idx"] = sorted(draw(st.lists(st.integers(0, d - 1), min_size=1, max_size=d, unique=True)))
    if t["op"] == "mask":
        t["rows"] = [[draw(st.integers(0, n - 1)) for n in N] for _ in range(draw(st.integers(1, 4)))]
    if t["op"] == "slice_lin":
        t["expr"] = [draw(st.sampled_from(["int", "full", "half"])) for _ in N]
        if all(e == "int" for e in t["expr"]):
            t["expr"][0] = "full"
    if t["op"] in ("cat_lin", "mprod_rect"):
        t["axis"] = draw(st.integers(0, d - 1))
    if t["op"] == "pad_lin":
        t["npad"] = draw(st.integers(1, d))
    # tracking
    case["track_mode"] = draw(st.sampled_from(["direct", "watch"]))
    tr = {}
    for leaf in ("x1", "x2", "A", "B", "x3"):
        mode = draw(st.sampled_from(["none", "all", "subset", "subset"]))
        if mode == "none":
            tr[leaf] = []
        elif mode == "all":
            tr[leaf] = list(range(d))
        else:
            tr[leaf] = sorted(draw(st.lists(st.integers(0, d - 1), min_size=1, max_size=d, unique=True)))
    if not tr["x1"]:
        tr["x1"] = [draw(st.integers(0, d - 1))]
    case["tracked"] = tr
    case["grad_api"] = draw(st.sampled_from(["none", "none", "grad", "grad_list"]))
    if case["grad_api"] == "grad":
        # order in which the tracked core indices of x1 are handed to grad.grad (the result follows the given order); or None = all cores
        case["grad_order"] = draw(st.sampled_from(["sorted", "reversed", "rotated", "none"]))
    if case["grad_api"] == "grad_list":
        # the tensors handed to grad_list: any leaves in any order (x3 has fewer cores than the others, A/B are operators)
        case["gl_leaves"] = draw(st.lists(st.sampled_from(["x1", "x2", "x3", "A", "B"]), min_size=1, max_size=4, unique=True))
    return case


def strategy(tier):
    return strategy_case()


def features(case):
    return {"terminal": case["terminal"]["op"], "chain": [c["op"] for c in case["chain"]], "order": len(case["N"])}


class Ctx:
    pass


def build_leaves(T, case):
    N, M = case["N"], case["M"]
    d = len(N)
    c = Ctx()
    c.cores = {
        "x1": core.make_cores({"N": N, "R": case["Rx1"], "dt": "f64", "mode": "gauss", "seed": case["seed"]}),
        "x2": core.make_cores({"N": N, "R": case["Rx2"], "dt": "f64", "mode": "gauss", "seed": case["seed"] + 1}),
        "A": core.make_cores({"N": N, "M": N, "R": case["RA"], "dt": "f64", "mode": "gauss", "seed": case["seed"] + 2}),
        "B": core.make_cores({"N": N, "M": M, "R": case["RB"], "dt": "f64", "mode": "gauss", "seed": case["seed"] + 3}),
    }
    k3 = 1 + case["seed"] % max(1, d - 1) if d > 1 else 1
    N3 = [1 if (case["seed"] >> (j + 3)) & 1 and d > 1 else n for j, n in enumerate(N[d - k3:])]
    c.cores["x3"] = core.make_cores({"N": N3, "R": [1] + [2] * (len(N3) - 1) + [1], "dt": "f64", "mode": "gauss", "seed": case["seed"] + 5})
    g = core.rng(case["seed"] + 4)
    c.g = g
    c.consts = {}
    return c


def const(c, name, shape):
    if name not in c.consts:
        c.consts[name] = core.payload(list(shape), "f64", "gauss", core.rng(hash(name) % (2 ** 31) + 7))
    return c.consts[name]


def evaluate(T, case, c, dense_mode):
    """Evaluate the expression either with the library (dense_mode=False) or on dense arrays (True). Returns a scalar."""
    N, M = case["N"], case["M"]
    d = len(N)
    if dense_mode:
        L = {k: dense(v, keep_graph=True) for k, v in c.cores.items()}
    else:
        L = {k: T.TT(list(v)) for k, v in c.cores.items()}
    cur = L["x1"]
    used = {"x1"}

    def mv(Aop, v):  # dense operator (rows.., cols..) times dense tensor
        return torch.tensordot(Aop, v, dims=d)

    for i, op in enumerate(case["chain"]):
        o = op["op"]
        if o in ("add", "sub", "mul"):
            used.add("x2")
            cur = cur + L["x2"] if o == "add" else (cur - L["x2"] if o == "sub" else cur * L["x2"])
        elif o in ("mul_bc", "add_bc", "sub_bc"):
            # second operand with fewer (trailing-aligned) modes and size-1 modes: the broadcasting branches
            used.add("x3")
            cur = cur * L["x3"] if o == "mul_bc" else (cur + L["x3"] if o == "add_bc" else cur - L["x3"])
        elif o == "matvec":
            used.add("A")
            cur = mv(L["A"], cur) if dense_mode else L["A"] @ cur
        elif o == "vecmat":
            used.add("A")
            cur = torch.tensordot(cur, L["A"], dims=d) if dense_mode else cur @ L["A"]
        elif o == "matmat_vec":
            used.add("A")
            cur = mv(torch.tensordot(L["A"], L["A"], dims=d), cur) if dense_mode else (L["A"] @ L["A"]) @ cur
        elif o == "sadd":
            cur = cur + op["s"]
        elif o == "smul":
            cur = cur * op["s"] if i % 2 == 0 else op["s"] * cur
        elif o == "sdiv":
            cur = cur / op["s"]
        elif o in ("sdiv_dep", "smul_dep", "sadd_dep", "ssub_dep"):
            # scalar given as a one-element tensor that itself depends on (possibly tracked) cores
            used.add("x2")
            sc = ((L["x2"] ** 2).sum() if dense_mode else T.dot(L["x2"], L["x2"])) + 1.0
            if i % 2 == 1 and not dense_mode:
                sc = sc.reshape([1])
            cur = {"sdiv_dep": lambda: cur / sc, "smul_dep": lambda: cur * sc, "sadd_dep": lambda: cur + sc,
                   "ssub_dep": lambda: cur - sc}[o]()
        elif o == "smul_dep0":
            # cur + cur * s with a tracked scalar s = <x2,x2> - <x2,x2> whose VALUE is exactly zero (its derivative is not used
            # by the product rule, but d(cur*s)/d(cur) = s = 0 and d(cur*s)/d(x2) = cur * ds/dx2 = 0 as well): the point is
            # that the graph must survive; and cur * (s + 1) - cur with the same s, whose derivative does matter
            used.add("x2")
            n2 = (L["x2"] ** 2).sum() if dense_mode else T.dot(L["x2"], L["x2"])
            s0 = n2 - n2.detach()                     # value 0, d s0 / d x2 = d n2 / d x2
            cur = cur + cur * s0 if i % 2 == 0 else cur + s0 * cur
        elif o == "rsub":
            cur = op["s"] - cur
        elif o == "neg":
            cur = -cur
        elif o == "mprod":
            k = op["mode"]
            Fm = const(c, "mprod%d_%d" % (i, k), [N[k], N[k]])
            if dense_mode:
                cur = torch.movedim(torch.tensordot(Fm, cur, dims=([1], [k])), 0, k)
            else:
                cur = cur.mprod(Fm, k) if i % 2 == 0 else cur.mprod([Fm], [k])
        elif o == "diag_rt":
            if not dense_mode:
                cur = T.diag(T.diag(cur))
        elif o == "slice_full":
            if not dense_mode:
                cur = cur[tuple(slice(None) for _ in N)]
        elif o == "pad_slice":
            if not dense_mode:
                cur = T.pad(cur, ((1, 1),), 0.0)[tuple([slice(None)] * (d - 1) + [slice(1, N[-1] + 1)])]
        if dense_mode:
            # magnitude of the intermediates (a later cancellation leaves their roundoff in the value; used by the
            # finite-difference clause as its noise floor)
            c.mag = max(getattr(c, "mag", 0.0), float(cur.detach().abs().sum()))
    if dense_mode:
        c.mag = max(getattr(c, "mag", 0.0), float(cur.detach().abs().sum()),
                    *[float(L[k].detach().abs().sum()) for k in ("x1", "x2")])
    t = case["terminal"]
    o = t["op"]
    W = const(c, "W", N)
    if o == "full_lin":
        val = cur if dense_mode else cur.full()
        return (W * val).sum(), used
    if o == "sum_all":
        return (cur.sum() if dense_mode else cur.sum()), used
    if o == "sum_subset":
        idx = t["idx"]
        if dense_mode:
            r = cur.sum(dim=idx)
        else:
            r = cur.sum(list(idx))
            r = r.full() if isinstance(r, T.TT) else r
        Ws = const(c, "Wsub", [N[k] for k in range(d) if k not in idx])
        return (Ws * r).sum(), used
    if o == "dot":
        used.add("x2")
        return ((cur * L["x2"]).sum() if dense_mode else T.dot(cur, L["x2"])), used
    if o == "dot_axis":
        idx = t["idx"]
        yc = const(c, "ydot", [1])  # placeholder to keep the rng independent
        sub_cores = core.make_cores({"N": [N[k] for k in idx], "R": [1] + [2] * (len(idx) - 1) + [1], "dt": "f64",
                                     "mode": "gauss", "seed": case["seed"] + 11})
        if dense_mode:
            r = torch.tensordot(cur, dense(sub_cores), dims=(list(idx), list(range(len(idx)))))
        else:
            r = T.dot(cur, T.TT(sub_cores), list(idx))
            r = r.full() if isinstance(r, T.TT) else r
        Ws = const(c, "Wsub", [N[k] for k in range(d) if k not in idx])
        return (Ws * r).sum(), used
    if o in ("norm", "norm_sq"):
        if dense_mode:
            n2 = (cur ** 2).sum()
            return (n2 if o == "norm_sq" else torch.sqrt(n2)), used
        return cur.norm(o == "norm_sq"), used
    if o == "bilinear":
        used.update({"A", "x2"})
        if dense_mode:
            return (cur * mv(L["A"], L["x2"])).sum(), used
        return T.bilinear_form(cur, L["A"], L["x2"]), used
    if o == "mask":
        idx = torch.tensor(t["rows"], dtype=torch.int64)
        w = const(c, "wmask", [len(t["rows"])])
        if dense_mode:
            return (w * cur[tuple(idx[:, k] for k in range(d))]).sum(), used
        return (w * cur.apply_mask(idx)).sum(), used
    if o == "slice_lin":
        expr = []
        for e, n in zip(t["expr"], N):
            expr.append(n - 1 if e == "int" else (slice(None) if e == "full" else slice(0, max(1, n // 2))))
        expr = tuple(expr)
        if dense_mode:
            r = cur[expr]
        else:
            r = cur[expr]
            r = r.full() if isinstance(r, T.TT) else r
        return (const(c, "Wslice", list(r.shape)) * r).sum(), used
    if o == "cat_lin":
        used.add("x2")
        ax = t["axis"]
        r = torch.cat((cur, L["x2"]), ax) if dense_mode else T.cat((cur, L["x2"]), ax).full()
        return (const(c, "Wcat", list(r.shape)) * r).sum(), used
    if o == "pad_lin":
        p = t["npad"]
        if dense_mode:
            r = F.pad(cur, [1, 2] * p)
        else:
            r = T.pad(cur, tuple((1, 2) for _ in range(p)), 0.0).full()
        return (const(c, "Wpad", list(r.shape)) * r).sum(), used
    if o == "kron_lin":
        used.add("x2")
        r = torch.tensordot(cur, L["x2"], dims=0) if dense_mode else (cur ** L["x2"]).full()
        return (const(c, "Wkron", list(r.shape)) * r).sum(), used
    if o == "mprod_rect":
        k = t["axis"]
        Fm = const(c, "Frect", [N[k] + 1, N[k]])
        r = torch.movedim(torch.tensordot(Fm, cur, dims=([1], [k])), 0, k) if dense_mode else cur.mprod(Fm, k).full()
        return (const(c, "Wmr", list(r.shape)) * r).sum(), used
    if o == "rect_matvec":
        used.add("B")
        r = mv(L["B"], cur) if dense_mode else (L["B"] @ cur).full()
        return (const(c, "WM", M) * r).sum(), used
    if o == "dense_matvec":
        used.add("B")
        r = mv(L["B"], cur) if dense_mode else L["B"] @ cur.full()
        return (const(c, "WM", M) * r).sum(), used
    if o == "layer":
        if not hasattr(c, "layer"):
            torch.manual_seed(case["seed"] % 1000)
            c.layer = T.nn.LinearLayerTT(list(N), list(M), [1] + [2] * (d - 1) + [1], dtype=torch.float64)
            c.layer.requires_grad_(False)
        if dense_mode:
            Wl = dense([p.detach() for p in c.layer.cores])
            r = mv(Wl, cur) + c.layer.bias.detach()
        else:
            r = c.layer(cur.full())
        return (const(c, "WM", M) * r).sum(), used
    raise core.HarnessError(o)


def execute(case):
    T = core.tt()
    ck = Checker()
    d = len(case["N"])
    c = build_leaves(T, case)
    kinds = sorted({x["op"] for x in case["chain"]} | {case["terminal"]["op"]})
    ck.label("terminal:" + case["terminal"]["op"], "chain:%d" % len(case["chain"]), "track:" + case["track_mode"], "order:%d" % d)
    for x in case["chain"]:
        ck.label("op:" + x["op"])
    # tracking
    tracked = []
    tt_leaves = {k: T.TT(list(v)) for k, v in c.cores.items()}
    both_full = case["track_mode"] == "watch" and all(len(case["tracked"][l]) == d for l in ("x1", "x2"))
    if both_full:
        lib(lambda: T.grad.watch_list([tt_leaves["x1"], tt_leaves["x2"]]))
        ck.label("watch_list")
    for leaf, idxs in case["tracked"].items():
        idxs = [i for i in idxs if i < len(c.cores[leaf])]
        if not idxs:
            continue
        if case["track_mode"] == "watch" and not (both_full and leaf in ("x1", "x2")):
            lib(lambda: T.grad.watch(tt_leaves[leaf], list(idxs)) if len(idxs) < len(c.cores[leaf]) else T.grad.watch(tt_leaves[leaf]))
        else:
            for i in idxs:
                c.cores[leaf][i].requires_grad_(True)
        for i in idxs:
            tracked.append((leaf, i, c.cores[leaf][i]))
    if not ck.require(all(t.requires_grad for _, _, t in tracked), "watch", "grad.watch did not mark the requested cores"):
        return ck.verdict()
    tens = [t for _, _, t in tracked]

    Ltt, used = lib(lambda: evaluate(T, case, c, False))
    Ldn, _ = evaluate(T, case, c, True)
    if not ck.require(torch.is_tensor(Ltt) and Ltt.numel() == 1, "value_type", "expression did not return a scalar tensor"):
        return ck.verdict()
    Ltt = Ltt.reshape(())
    scaleL = abs(float(Ldn.detach())) + 1e-300
    if case["terminal"]["op"] in ("norm",) and float(Ldn.detach()) < 1e-6:
        ck.label("skipped_norm_at_zero")
        return ck.verdict()
    ck.bound(abs(float(Ltt.detach()) - float(Ldn.detach())), 1e-10 * (scaleL + 1.0), "value")
    used_tracked = [(l, i, t) for (l, i, t) in tracked if l in used]
    if any(l in ("A", "B") for l, _, _ in used_tracked):
        ck.label("operator_tracked")
    if not Ltt.requires_grad:
        # nothing tracked reaches the output (possible only if no tracked leaf is used) - x1 is always used & tracked
        ck.require(False, "graph_cut", "the TT expression is detached from the tracked cores")
        return ck.verdict()
    gtt = lib(lambda: torch.autograd.grad(Ltt, tens, allow_unused=True, retain_graph=False))
    gdn = torch.autograd.grad(Ldn, tens, allow_unused=True)
    z = lambda g_, t: torch.zeros_like(t) if g_ is None else g_
    gtt = [z(a, t) for a, t in zip(gtt, tens)]
    gdn = [z(a, t) for a, t in zip(gdn, tens)]
    gnorm = float(sum(float((g_ ** 2).sum()) for g_ in gdn)) ** 0.5
    for (leaf, i, t), a, b in zip(tracked, gtt, gdn):
        ck.require(list(a.shape) == list(t.shape), "grad_shape", "gradient shape differs from the core shape")
        ck.bound(fro(a - b), 1e-9 * (gnorm + scaleL), "grad_vs_dense", "leaf %s core %d" % (leaf, i))
    # finite differences (not for smul_dep0: its zero-valued scalar is built with detach(), which is no function of the
    # cores for a difference quotient; the autograd-vs-dense clause above covers it)
    if ck.failed is None and not any(x["op"] == "smul_dep0" for x in case["chain"]):
        g = core.rng(case["seed"] + 99)
        for rep in range(2):
            dirs = [core.payload(list(t.shape), "f64", "gauss", g) for t in tens]
            h = 1e-6
            vals = []
            with torch.no_grad():
                for sgn in (1.0, -1.0):
                    for t, v in zip(tens, dirs):
                        t.add_(sgn * h * v)
                    vals.append(float(evaluate(T, case, c, False)[0]))
                    for t, v in zip(tens, dirs):
                        t.sub_(sgn * h * v)
            fd = (vals[0] - vals[1]) / (2 * h)
            an = float(sum((a * v).sum() for a, v in zip(gtt, dirs)))
            dn = float(sum(float((v ** 2).sum()) for v in dirs)) ** 0.5
            # 1e-6 relative (truncation of the central difference) + the roundoff of the two evaluations divided by 2h:
            # u * (magnitude of the largest intermediate, which a cancellation may have removed from the value) / h
            noise = 64 * 1.2e-16 * getattr(c, "mag", 0.0) / h
            ck.bound(abs(fd - an), 1e-6 * (abs(an) + scaleL + gnorm * dn) + noise, "grad_vs_finite_difference", "fd %g analytic %g" % (fd, an))
    # grad.grad / grad.grad_list
    api = case["grad_api"]
    if api != "none" and ck.failed is None:
        ck.label("grad_api")
        for v in c.cores.values():
            for t in v:
                t.grad = None
        leaves2 = {k: T.TT(list(v)) for k, v in c.cores.items()}
        if case["seed"] % 3 == 0:
            # an earlier call of the gradient API on ANOTHER expression of the same (watched) leaves: the derivative
            # asked for afterwards must be that of `val` alone
            ck.label("grad_api_second_call")
            prev = evaluate(T, case, c, False)[0] * 3.0 + 1.0
            if api == "grad":
                # ... asked for the same operand, for ANOTHER watched operand of the expression, or by a backward pass of the
                # user's own: in each case stale .grad contents of x1 must not leak into the result below
                how = (case["seed"] // 3) % 3
                other = [l for l in leaves2 if l != "x1" and any(t.requires_grad for t in c.cores[l])]
                if how == 1 and other:
                    ck.label("grad_api_earlier_call_other_operand")
                    lib(lambda: T.grad.grad(prev, leaves2[other[0]]))
                elif how == 2 and getattr(prev, "requires_grad", False):
                    ck.label("grad_api_earlier_user_backward")
                    lib(lambda: prev.backward())
                else:
                    lib(lambda: T.grad.grad(prev, leaves2["x1"]))
            else:
                lib(lambda: T.grad.grad_list(prev, [leaves2[l] for l in case.get("gl_leaves", ["x1", "x2"])]))
        # evaluate() builds its own TT objects from the same core tensors, so .grad lands on them
        val = evaluate(T, case, c, False)[0]
        if api == "grad":
            idxs = list(case["tracked"]["x1"])
            order = case.get("grad_order", "sorted")
            if order == "reversed":
                idxs = idxs[::-1]
            elif order == "rotated":
                idxs = idxs[1:] + idxs[:1]
            ck.label("grad_order:" + order)
            if order == "none":
                res = lib(lambda: T.grad.grad(val, leaves2["x1"]))
                want = list(range(d))
            else:
                res = lib(lambda: T.grad.grad(val, leaves2["x1"], list(idxs)))
                want = idxs
            ck.require(isinstance(res, list) and len(res) == len(want), "grad_api_len", "grad.grad returned %s" % type(res))
            if ck.failed is None and case["seed"] % 2 == 0:
                # the returned derivative belongs to the caller: a later backward pass through the same leaves (the next
                # gradient the user computes, for this or another operand) must not change it
                ck.label("grad_api_later_backward")
                snap = [None if r is None else r.detach().clone() for r in res]
                later = evaluate(T, case, c, False)[0]
                if getattr(later, "requires_grad", False):
                    lib(lambda: later.backward())
                    ck.require(all((a is None and b is None) or (a is not None and b is not None and torch.equal(a, b)) for a, b in zip(snap, res)),
                               "grad_api_result_overwritten", "the list returned by grad.grad changed when another backward pass ran")
            if ck.failed is None:
                for i, r in zip(want, res):
                    refs = [a for (l, j, _), a in zip(tracked, gtt) if l == "x1" and j == i]
                    if not refs:
                        ck.require(r is None, "grad_api_untracked", "grad.grad returned a gradient for the untracked core %d" % i)
                        continue
                    ref = refs[0]
                    ck.require(r is not None and list(r.shape) == list(c.cores["x1"][i].shape), "grad_api_shape", "grad.grad entry for core %d is %s" % (i, None if r is None else list(r.shape)))
                    if ck.failed is None:
                        ck.bound(fro(r - ref), 1e-12 * (gnorm + scaleL), "grad_api_value", "core %d (order %s)" % (i, order))
        else:
            gl = case.get("gl_leaves", ["x1", "x2"])
            lens = [len(c.cores[l]) for l in gl]
            if len(set(lens)) > 1:
                ck.label("grad_list_mixed_orders")
            if case["seed"] % 2:
                flat = lib(lambda: T.grad.grad_list(val, [leaves2[l] for l in gl]))      # all_in_one=True (default)
                res = flat
                if isinstance(flat, list) and len(flat) == sum(lens):
                    res, o = [], 0
                    for n_ in lens:
                        res.append(flat[o:o + n_])
                        o += n_
                ck.label("grad_list_all_in_one")
            else:
                res = lib(lambda: T.grad.grad_list(val, [leaves2[l] for l in gl], all_in_one=False))
            ck.require(isinstance(res, list) and len(res) == len(gl) and all(isinstance(r, list) and len(r) == n_ for r, n_ in zip(res, lens)),
                       "grad_api_len", "grad_list structure: expected one list per tensor with lengths %s, got %s" % (
                           lens, [len(r) if isinstance(r, list) else type(r).__name__ for r in res] if isinstance(res, list) else type(res).__name__))
            if ck.failed is None:
                for leaf, lst in zip(gl, res):
                    for i in range(len(c.cores[leaf])):
                        refs = [a for (l, j, _), a in zip(tracked, gtt) if l == leaf and j == i]
                        if refs and leaf in used:
                            ck.require(lst[i] is not None and list(lst[i].shape) == list(c.cores[leaf][i].shape), "grad_api_shape", "grad_list entry missing")
                            if ck.failed is None:
                                ck.bound(fro(lst[i] - refs[0]), 1e-12 * (gnorm + scaleL), "grad_api_value")
                        elif not refs:
                            ck.require(lst[i] is None, "grad_api_untracked", "grad_list returned a gradient for an untracked core")
                        elif leaf not in used:
                            ck.require(lst[i] is None or float(lst[i].abs().max()) == 0.0, "grad_api_unused_leaf",
                                       "grad_list attributed a non-zero gradient to a core of a tensor the expression does not use")
    proper = any(0 < len(v) < d for k, v in case["tracked"].items() if k in used)
    ck.nontrivial = len(kinds) >= 2 and proper
    return ck.verdict()
