"""C07 - norm, dot, sum and bilinear_form equal their dense values."""
import numpy as np
import torch
from hypothesis import strategies as st

from vt import core, gen
from vt.core import Checker, lib, dense, dense_abs, DT, UNIT, MANT, fro

RULE = ("Hypothesis draws a routine (norm plain/squared with autograd off/on-by-leaf/on-by-graph, sum(), sum(index) "
        "for every kind of subset, dot(a,b), dot(a,b,axis) for sorted subsets, bilinear_form rectangular), tensors and "
        "operators of order 1-5, mode sizes from {1,2,3,4,5} (singleton modes next to ranks>1), ranks 1-4, "
        "real/complex/float32, zero tensors, data scale 10^{0,+-3,+-6}, integer (exact where every partial sum is below the mantissa) or Gaussian "
        "payload. Oracle: the dense reduction on the checker's own contraction, including the result *shape*. "
        "Non-trivial: some rank>1 and, for subset reductions, a strict non-empty subset. Distinct = structural signature.")
BUDGET = {"quick": 12000, "thorough": 600000}
FLOORS = {"quick": {"op:norm": 500, "op:sum_idx": 500, "op:dot_axis": 500, "op:bilinear": 300, "order:1": 300,
                    "kept_singleton_mode": 100, "zero": 100, "operator": 500}}
ASSUMPTIONS = ["dot conjugates its second argument and bilinear_form its first (the implemented, anchored convention)",
               "sum/dot axes are sorted and in range (other values belong to C18); in-range negative axes (torch style) have a "
               "dense counterpart, so they are generated with an accept-or-correct oracle: InvalidArguments/ShapeMismatch, or the right value"]

SZ = (1, 2, 3, 4, 5)
LIBERR = ("ShapeMismatch", "RankMismatch", "IncompatibleTypes", "InvalidArguments", "NotImplementedError")


@st.composite
def strategy_case(draw):
    op = draw(st.sampled_from(["norm", "norm", "sum_all", "sum_idx", "sum_idx", "dot", "dot_axis", "dot_axis", "bilinear"]))
    ttm = op in ("norm", "sum_all", "sum_idx") and draw(st.floats(0, 1)) < 0.3
    dmax = 4 if ttm else 5
    x = draw(gen.tt_spec(dmin=1, dmax=dmax, sizes=SZ, ttm=ttm, maxnumel=1500 if not ttm else 40))
    zero = draw(st.floats(0, 1)) < 0.04
    # every clause is relative, so the data scale must not matter (one core of x is multiplied by 10^k)
    case = {"op": op, "x": x, "zero": zero, "scale10": draw(st.sampled_from([0, 0, 0, 0, -3, -6, 3, 6])),
            # badly balanced cores: one core times 10^u, its neighbour times 10^-u (the tensor itself is unchanged)
            "unbalanced": draw(st.sampled_from([0, 0, 0, 0, 0, 120, 170]))}
    d = len(x["N"])
    if op == "norm":
        case["squared"] = draw(st.booleans())
        case["autograd"] = draw(st.sampled_from(["off", "off", "leaf", "graph"]))
    elif op == "sum_idx":
        idx = draw(st.lists(st.integers(0, d - 1), min_size=1, max_size=d, unique=True))
        idx = sorted(idx)
        form = draw(st.sampled_from(["list", "int"])) if len(idx) == 1 else "list"
        case["index"] = idx
        case["form"] = form
        # torch-style negative axes have a dense counterpart: the library may reject them (InvalidArguments) or must be right
        if draw(st.integers(0, 7)) == 0:
            case["negative"] = [draw(st.booleans()) for _ in idx]
            if not any(case["negative"]):
                case["negative"][-1] = True
        elif len(idx) >= 2 and draw(st.integers(0, 2)) == 0:
            # the index list names a set of modes: listing it in another order is the same reduction (accept-or-correct)
            case["listed"] = list(draw(st.permutations(idx)))
    elif op == "dot":
        case["y"] = draw(gen.tt_spec(N=x["N"], dt=x["dt"], mode=x["mode"]))
    elif op == "dot_axis":
        ax = sorted(draw(st.lists(st.integers(0, d - 1), min_size=1, max_size=d, unique=True)))
        case["axis"] = ax
        case["y"] = draw(gen.tt_spec(N=[x["N"][i] for i in ax], dt=x["dt"], mode=x["mode"]))
        if len(ax) >= 2 and draw(st.integers(0, 3)) == 0:
            # the axis list in another order: mode k of b goes with mode axis[k] of a (accept-or-correct)
            listed = list(draw(st.permutations(ax)))
            if listed != ax:
                case["axis_listed"] = listed
                case["y"] = draw(gen.tt_spec(N=[x["N"][i] for i in listed], dt=x["dt"], mode=x["mode"]))
        if draw(st.integers(0, 7)) == 0:
            case["negative"] = [draw(st.booleans()) for _ in ax]
            if not any(case["negative"]):
                case["negative"][-1] = True
    elif op == "bilinear":
        M = draw(gen.modes(d, d, SZ, maxnumel=1500))
        case["A"] = draw(gen.tt_spec(N=x["N"], M=M, dt=x["dt"], mode=x["mode"], rmax=3))
        case["xl"] = draw(gen.tt_spec(N=M, dt=x["dt"], mode=x["mode"], rmax=3))
    return case


def strategy(tier):
    return strategy_case()


def features(case):
    x = case["x"]
    f = {"op": case["op"], "order": len(x["N"]), "operator": "M" in x, "autograd": case.get("autograd")}
    if case["op"] in ("sum_idx", "dot_axis"):
        idx = case.get("index", case.get("axis"))
        kept = [i for i in range(len(x["N"])) if i not in idx]
        f["kept_singleton"] = any(x["N"][i] == 1 and (("M" not in x) or x["M"][i] == 1) for i in kept)
        f["all_reduced"] = len(kept) == 0
    return f


def _scalar_check(ck, got, ref, ref_abs_sum, exact, dt, name, C=64):
    """got: library scalar (tensor/number); ref: python complex/float; ref_abs_sum: bound on every partial sum."""
    if torch.is_tensor(got):
        if not ck.require(got.numel() == 1, name + "_shape", "%s returned a tensor of shape %s" % (name, list(got.shape))):
            return
        g = complex(got.detach().reshape(-1)[0].item())
    else:
        try:
            g = complex(got)
        except Exception:
            ck.require(False, name + "_type", "%s returned %s" % (name, type(got).__name__))
            return
    r = complex(ref)
    if exact and ref_abs_sum < MANT[dt]:
        ck.label("exact")
        ck.require(g == r, name + "_value_exact", "%s = %r, dense value %r" % (name, g, r))
    else:
        ck.bound(abs(g - r), C * UNIT[dt] * max(ref_abs_sum, 1e-300), name + "_value_roundoff", "got %r ref %r" % (g, r))


def execute(case):
    T = core.tt()
    ck = Checker()
    op = case["op"]
    xs = case["x"]
    dt = xs["dt"]
    u = UNIT[dt]
    d = len(xs["N"])
    ttm = "M" in xs
    xc = core.make_cores(xs)
    if case.get("zero"):
        k = xs["seed"] % d
        xc[k] = torch.zeros_like(xc[k])
        ck.label("zero")
    exact = xs["mode"] == "int"
    if case.get("scale10", 0):
        k = (xs["seed"] // 7) % d
        xc[k] = xc[k] * (10.0 ** case["scale10"])
        exact = False
        ck.label("scaled")
    also_other = lambda cores: cores
    if case.get("unbalanced", 0) and d >= 2:
        ub = case["unbalanced"] if dt in ("f64", "c128") else 15
        k = (xs["seed"] // 11) % d
        xc[k] = xc[k] * (10.0 ** ub)
        xc[(k + 1) % d] = xc[(k + 1) % d] * (10.0 ** (-ub))
        exact = False
        ck.label("unbalanced_cores")
        if xs["seed"] % 2 == 0:
            # the second operand of dot / bilinear_form badly balanced at the same position: the partial products of the chain
            # reach 10^(2u) while the result is an ordinary number
            def also_other(cores):
                if len(cores) == d:
                    cores[k] = cores[k] * (10.0 ** ub)
                    cores[(k + 1) % d] = cores[(k + 1) % d] * (10.0 ** (-ub))
                    ck.label("unbalanced_both_operands")
                return cores
    ck.label("op:" + op, "dt:" + dt, "order:%d" % d, "payload:" + xs["mode"])
    if ttm:
        ck.label("operator")
    if core.is_complex(dt):
        ck.label("complex")
    big = any(r > 1 for r in xs["R"])
    xd, xa = dense(xc), dense_abs(xc)
    C = 64 * (d + 1) * max(xs["R"])

    if op == "norm":
        mode = case["autograd"]
        ck.label("autograd:" + mode, "squared" if case["squared"] else "plain")
        cores = core.clone_cores(xc)
        if mode == "leaf":
            cores[xs["seed"] % d].requires_grad_(True)
        elif mode == "graph":
            w = torch.ones((), dtype=DT[dt], requires_grad=True)
            cores[0] = cores[0] * w
        x = T.TT(cores)
        got = lib(lambda: x.norm(case["squared"]))
        ref2 = float((xd.abs() ** 2).sum())
        if ck.require(torch.is_tensor(got) and got.numel() == 1, "norm_shape",
                      "norm returned %s" % (list(got.shape) if torch.is_tensor(got) else type(got).__name__)):
            ck.require(not got.dtype.is_complex, "norm_dtype", "norm(squared=%s) of a %s operand (autograd %s) has dtype %s, the dense value is real" % (
                case["squared"], dt, mode, got.dtype))
            g = complex(got.detach().reshape(-1)[0].item())
            g2 = g if case["squared"] else g * g
            if not case["squared"]:
                ck.require(abs(g.imag) == 0 and g.real >= 0, "norm_sign", "norm() = %r is not a non-negative real" % g)
            ck.bound(abs(g2 - ref2), C * u * max(float((xa ** 2).sum()), 1e-300), "norm_value",
                     "norm^2 got %r, dense %r" % (g2, ref2))
        ck.nontrivial = big
        return ck.verdict()

    x = T.TT(core.clone_cores(xc))
    if op == "sum_all":
        got = lib(lambda: x.sum())
        _scalar_check(ck, got, complex(xd.sum()), float(xa.sum()), exact, dt, "sum", C)
        ck.nontrivial = big
        return ck.verdict()

    if op == "sum_idx":
        idx = case["index"]
        arg = idx[0] if case["form"] == "int" else list(idx)
        if case.get("negative"):
            ck.label("negative_axis")
            neg = [i - d if f else i for i, f in zip(idx, case["negative"])]
            if xs["seed"] % 3 == 1:          # numpy integers / a tuple instead of a list: same accept-or-correct oracle
                neg = [np.int64(i) for i in idx]
                ck.label("numpy_axis")
            elif xs["seed"] % 3 == 2 and case["form"] != "int":
                neg = tuple(idx)
                ck.label("tuple_axis")
            arg = neg[0] if case["form"] == "int" else neg
            try:
                got = lib(lambda: x.sum(arg))
            except core.LibraryException as e:
                if type(e.orig).__name__ in LIBERR:
                    ck.label("negative_axis_rejected")
                    return ck.verdict()
                raise
        elif case.get("listed") and case["listed"] != list(idx):
            ck.label("unsorted_index_list")
            # a permuted list names the same set of modes (inside the quantifier): it has to work
            got = lib(lambda: x.sum(list(case["listed"])))
        else:
            got = lib(lambda: x.sum(arg))
        dims = list(idx) + ([i + d for i in idx] if ttm else [])
        ref = xd.sum(dim=dims)
        ref_abs = xa.sum(dim=dims)
        kept = [i for i in range(d) if i not in idx]
        _pattern_labels(ck, idx, d)
        if any(xs["N"][i] == 1 and (not ttm or xs["M"][i] == 1) for i in kept):
            ck.label("kept_singleton_mode")
        _tt_or_scalar(ck, T, got, ref, ref_abs, exact, dt, C, ttm, len(kept) == 0, "sum")
        ck.nontrivial = big and 0 < len(idx) < d
        return ck.verdict()

    if op == "dot":
        yc = also_other(core.make_cores(case["y"]))
        y = T.TT(core.clone_cores(yc))
        got = lib(lambda: T.dot(x, y))
        yd, ya = dense(yc), dense_abs(yc)
        _scalar_check(ck, got, complex((xd * yd.conj()).sum()), float((xa * ya).sum()), exact, dt, "dot",
                      C * max(case["y"]["R"]))
        ck.nontrivial = big and any(r > 1 for r in case["y"]["R"])
        return ck.verdict()

    if op == "dot_axis":
        ax = case["axis"]
        yc = core.make_cores(case["y"])
        y = T.TT(core.clone_cores(yc))
        if case.get("axis_listed"):
            ck.label("dot_axis_not_ascending")
            listed = case["axis_listed"]
            try:
                got = lib(lambda: T.dot(x, y, list(listed)))
            except core.LibraryException as e:
                if type(e.orig).__name__ in LIBERR:
                    ck.label("dot_axis_not_ascending_rejected")
                    return ck.verdict()
                raise
            yd, ya = dense(yc), dense_abs(yc)
            kept = [i for i in range(d) if i not in ax]
            ref = torch.tensordot(xd, yd.conj(), dims=(list(listed), list(range(len(listed)))))
            ref_abs = torch.tensordot(xa, ya, dims=(list(listed), list(range(len(listed)))))
            _tt_or_scalar(ck, T, got, ref, ref_abs, exact, dt, C * max(case["y"]["R"]), False, len(kept) == 0, "dot_axis")
            return ck.verdict()
        if case.get("negative"):
            ck.label("negative_axis")
            neg = [i - d if f else i for i, f in zip(ax, case["negative"])]
            if xs["seed"] % 3 == 1:
                neg = [np.int64(i) for i in ax]
                ck.label("numpy_axis")
            elif xs["seed"] % 3 == 2:
                neg = tuple(ax)
                ck.label("tuple_axis")
            try:
                got = lib(lambda: T.dot(x, y, neg))
            except core.LibraryException as e:
                if type(e.orig).__name__ in LIBERR:
                    ck.label("negative_axis_rejected")
                    return ck.verdict()
                raise
        else:
            got = lib(lambda: T.dot(x, y, list(ax)))
        yd, ya = dense(yc), dense_abs(yc)
        kept = [i for i in range(d) if i not in ax]
        # contract x's modes `ax` with y's modes 0..len(ax)-1
        ref = torch.tensordot(xd, yd.conj(), dims=(list(ax), list(range(len(ax)))))
        ref_abs = torch.tensordot(xa, ya, dims=(list(ax), list(range(len(ax)))))
        _pattern_labels(ck, ax, d)
        if any(xs["N"][i] == 1 for i in kept):
            ck.label("kept_singleton_mode")
        _tt_or_scalar(ck, T, got, ref, ref_abs, exact, dt, C * max(case["y"]["R"]), False, len(kept) == 0, "dot_axis")
        ck.nontrivial = big and 0 < len(ax) < d
        return ck.verdict()

    if op == "bilinear":
        Ac = core.make_cores(case["A"])
        lc = also_other(core.make_cores(case["xl"]))
        A = T.TT(core.clone_cores(Ac))
        xl = T.TT(core.clone_cores(lc))
        got = lib(lambda: T.bilinear_form(xl, A, x))
        Ad, Aa = dense(Ac), dense_abs(Ac)
        ld, la = dense(lc), dense_abs(lc)
        Ay = torch.tensordot(Ad, xd, dims=d)
        ref = complex((ld.conj() * Ay).sum())
        bound = float((la * torch.tensordot(Aa, xa, dims=d)).sum())
        _scalar_check(ck, got, ref, bound, exact, dt, "bilinear", C * max(case["A"]["R"]) * max(case["xl"]["R"]))
        if case["A"]["M"] != case["A"]["N"]:
            ck.label("rectangular")
        ck.nontrivial = big and any(r > 1 for r in case["A"]["R"]) and case["A"]["M"] != case["A"]["N"]
        return ck.verdict()
    raise core.HarnessError("unknown op " + op)


def _pattern_labels(ck, idx, d):
    if len(idx) == d:
        ck.label("subset:all")
    elif idx == [0]:
        ck.label("subset:first")
    elif idx == [d - 1]:
        ck.label("subset:last")
    elif all(b - a == 1 for a, b in zip(idx, idx[1:])):
        ck.label("subset:adjacent")
    else:
        ck.label("subset:scattered")


def _tt_or_scalar(ck, T, got, ref, ref_abs, exact, dt, C, ttm, all_reduced, name):
    if all_reduced:
        _scalar_check(ck, got, complex(ref), float(ref_abs), exact, dt, name, C)
        if torch.is_tensor(got):
            ck.require(got.dim() == 0, name + "_shape", "all modes reduced: expected a scalar tensor, got shape %s" % list(got.shape))
        return
    if not ck.require(isinstance(got, T.TT), name + "_type",
                      "%s over a strict subset returned %s (dense result has shape %s)" % (
                          name, type(got).__name__ + (str(list(got.shape)) if torch.is_tensor(got) else ""), list(ref.shape))):
        return
    if not ck.require(got.is_ttm == ttm, name + "_kind", "is_ttm=%s" % got.is_ttm):
        return
    g = dense(got.cores)
    meta = (list(got.M) + list(got.N)) if ttm else list(got.N)
    if not ck.require(list(g.shape) == list(ref.shape) and meta == list(ref.shape), name + "_shape",
                      "%s: result shape %s, dense reduction has shape %s" % (name, meta, list(ref.shape))):
        return
    ck.require(all(c.dtype == DT[dt] for c in got.cores), name + "_dtype", "dtype changed")
    if exact and float(ref_abs.max()) < MANT[dt]:
        ck.label("exact")
        ck.require(core.bit_equal(g, ref), name + "_value_exact",
                   lambda: "%s differs from dense reduction, max |diff| %g" % (name, float((g - ref).abs().max())))
    else:
        ck.bound(fro(g - ref), C * UNIT[dt] * max(fro(ref_abs), 1e-300), name + "_value_roundoff")
