"""C13 - elementwise division inverts elementwise multiplication."""
import math
import numpy as np
import torch
from hypothesis import strategies as st

from vt import core, gen
from vt.core import Checker, lib, dense, dense_abs, DT, UNIT, fro

RULE = ("[complex128: 1/4 of the TT/TT cases use a complex numerator and store the positive denominator with complex dtype.] Hypothesis draws y = c + z*z (c in {1,0.5,3}, z a Gaussian TT of ranks 1-2 rescaled to max|z| in {0.3,1,2}, so "
        "all entries of y lie in [c, c+4]), x a Gaussian TT of ranks 1-4, order 2-5, modes 1-10, and a form: x/y, s/y "
        "(s int, float, 0-d or one-element tensor), elementwise_divide(x,y,eps, preconditioner None/'c', starting "
        "tensor None/random/one of the operands themselves, kick) with eps log-uniform in [1e-11,1e-3], elementwise_divide(scalar,y), and x/s. x and y are also multiplied by 10^{0,+-3,+-6}; two families leave the 3000-entry cap: large local problems (modes 8-10, iterative local solver) and high-rank quotients (order 4-5, modes 7-8, middle rank 49-64). The seed "
        "of the internal randomness is drawn. Oracle: q has the shape of y and ||dense(q)*dense(y) - dense(x)|| <= "
        "5 tol ||x|| (tol = eps, or 1e-12 for the operators) + roundoff; x/s exact/roundoff. Non-trivial: y has a rank>1 "
        "and some mode>=3.")
BUDGET = {"quick": 1200, "thorough": 48000}
FLOORS = {"quick": {"form:x/y": 100, "form:s/y": 100, "form:ediv": 200, "prec:c": 80, "starting_tensor": 80, "starting_tensor_is_operand": 25, "form:x/s": 60, "high_rank_quotient": 25}}
SHRINK = {"quick": False, "thorough": True}
ASSUMPTIONS = ["y is assembled with the library's own + and * (C03 checks those); the oracle uses the dense value of the "
               "cores actually passed", "torch.manual_seed(lib_seed) pins the internal randomness"]
C_TOL = 5.0


@st.composite
def strategy_case(draw):
    form = draw(st.sampled_from(["x/y", "s/y", "ediv", "ediv", "ediv", "x/s", "ediv_scalar"]))
    d = draw(st.integers(2, 5))
    N = draw(gen.modes(d, d, (1, 2, 3, 4, 5, 6, 8, 10), maxnumel=3000, distinct_bias=0.4))
    case = {"form": form, "N": N, "seed": draw(gen.SEED), "lib_seed": draw(gen.SEED),
            "Rx": draw(gen.ranks(d, 4)), "Rz": draw(gen.ranks(d, 2)),
            "zmax": draw(st.sampled_from([0.3, 1.0, 2.0])), "c": draw(st.sampled_from([1.0, 1.0, 0.5, 3.0]))}
    if form in ("x/y", "s/y", "ediv") and draw(st.integers(0, 5)) == 0:
        # large local problems: the quotient's ranks grow until r*n*r >= 500, which switches the local solver of the
        # AMEn division from the dense solve to (preconditioned) GMRES
        k = draw(st.integers(2, 3))
        case["N"] = [draw(st.sampled_from([8, 10])) for _ in range(k)]
        case["Rx"] = draw(gen.ranks(k, 4))
        case["Rz"] = [1] + [2] * (k - 1) + [1]
        case["zmax"] = 2.0
        case["big"] = True
        d = k
    elif form in ("x/y", "s/y", "ediv") and draw(st.integers(0, 11)) == 0:
        # quotients of high TT rank (order 4-5, modes 7-8: the middle bond of x / (1 + z*z) needs rank 49-64), which is where
        # the rank caps the operators pass to the solver (500 / 1000) would bind if they were set lower
        case["N"] = draw(st.sampled_from([[8, 8, 8, 8], [7, 8, 8, 7], [8, 8, 1, 8, 8], [8, 7, 7, 8], [1, 8, 8, 8, 8]]))
        d = len(case["N"])
        case["Rx"] = [1] + [draw(st.integers(2, 4)) for _ in range(d - 1)] + [1]
        case["Rz"] = [1] + [2] * (d - 1) + [1]
        case["zmax"] = 2.0
        case["big"] = True
        case["high_rank"] = True
    case["scale_x"] = draw(st.sampled_from([0, 0, 0, 0, -6, -3, 3, 6, -170, 170, -250, 250]))
    case["scale_y"] = draw(st.sampled_from([0, 0, 0, 0, -6, -3, 3, 6]))
    if form in ("s/y", "ediv_scalar", "x/s"):
        # x / s also with 0-d tensor scalars of another dtype (int64, float32): they do not promote the float64 TT
        case["s"] = draw(gen.scalar(["int", "float", "t0d", "t1"] + (["t0d_i64", "t0d_other"] if form == "x/s" else [])))
        if case["s"]["value"] == 0:
            case["s"]["value"] = 2
    if form in ("ediv", "ediv_scalar"):
        case["eps"] = 10 ** draw(st.floats(-11, -3 if not case.get("big") else -8))
        case["prec"] = draw(st.sampled_from([None, None, "c"]))
        case["kick"] = draw(st.sampled_from([4, 4, 2]))
        if draw(st.floats(0, 1)) < 0.3:
            case["start_R"] = draw(gen.ranks(d, 3))
            # the initial guess may be a fresh tensor or one of the operands themselves (numerator as a cheap first guess)
            case["start_kind"] = draw(st.sampled_from(["random", "random", "x", "y"]))
    # complex128 objects: complex numerator, the (positive) denominator stored with complex dtype
    if form in ("x/y", "s/y", "ediv"):
        case["dt"] = draw(st.sampled_from(["f64", "f64", "f64", "c128"]))
    return case


def strategy(tier):
    return strategy_case()


def features(case):
    return {"form": case["form"], "order": len(case["N"]), "prec": case.get("prec"), "start": "start_R" in case}


def execute(case):
    T = core.tt()
    ck = Checker()
    form = case["form"]
    N = case["N"]
    d = len(N)
    u = UNIT["f64"]
    ck.label("form:" + form, "order:%d" % d)
    if case.get("big"):
        ck.label("big_local_problems")
    if case.get("high_rank"):
        ck.label("high_rank_quotient")
    dt = case.get("dt", "f64")
    ck.label("dt:" + dt)
    xc = core.make_cores({"N": N, "R": case["Rx"], "dt": dt, "mode": "gauss", "seed": case["seed"]})
    if case.get("scale_x", 0):
        kx = case["seed"] % d
        xc[kx] = xc[kx] * (10.0 ** case["scale_x"])
        ck.label("scaled_x")
    x = T.TT(core.clone_cores(xc))
    xd = dense(xc)
    if form == "x/s":
        s = case["s"]
        sv = gen.build_scalar(s, "f64")
        q = lib(lambda: x / sv)
        if ck.require(isinstance(q, T.TT) and [int(n) for n in q.N] == list(N), "shape", "x/s shape"):
            sval = gen.scalar_exact_value(s, "f64")      # a float32 0-d tensor carries the rounded value
            ck.label("scalar:" + s["kind"])
            ck.bound(fro(dense(q.cores) - xd / sval), 64 * d * u * fro(dense_abs(xc)) / abs(sval), "scalar_division")
        ck.nontrivial = any(r > 1 for r in case["Rx"])
        return ck.verdict()
    zc = core.make_cores({"N": N, "R": case["Rz"], "dt": "f64", "mode": "gauss", "seed": case["seed"] + 1})
    zmax = float(dense(zc).abs().max())
    zc[0] = zc[0] * (case["zmax"] / max(zmax, 1e-300))
    z = T.TT(zc)
    y = z * z + case["c"]
    ycores = core.clone_cores(y.cores)
    if dt == "c128":
        ycores = [c.to(torch.complex128) for c in ycores]
        y = T.TT(core.clone_cores(ycores))
    yd = dense(ycores)
    if not ck.require(float(yd.real.min()) > 0.2, "harness_precondition", "y not bounded away from zero"):
        raise core.HarnessError("generator produced y with entries near zero: min %g" % float(yd.real.min()))
    if case.get("scale_y", 0):
        # the clause is relative: y (still bounded away from zero relative to its size) is multiplied by 10^k
        ky = (case["seed"] // 5) % d
        ycores[ky] = ycores[ky] * (10.0 ** case["scale_y"])
        y = T.TT(core.clone_cores(ycores))
        yd = dense(ycores)
        ck.label("scaled_y")
    torch.manual_seed(case["lib_seed"])
    tol = 1e-12
    if form == "x/y":
        q = lib(lambda: x / y)
        num = xd
    elif form == "s/y":
        sv = gen.build_scalar(case["s"], dt)
        ck.label("scalar:" + case["s"]["kind"])
        q = lib(lambda: sv / y)
        num = torch.full_like(yd, float(case["s"]["value"]))
    else:
        tol = case["eps"]
        kw = {"eps": tol, "preconditioner": case["prec"], "kick": case["kick"]}
        ck.label("prec:%s" % case["prec"], "eps_decade:%d" % int(math.floor(math.log10(tol))))
        if "start_R" in case:
            ck.label("starting_tensor")
            kw["starting_tensor"] = T.TT(core.make_cores({"N": N, "R": case["start_R"], "dt": dt, "mode": "gauss", "seed": case["seed"] + 2}))
            if form == "ediv" and case.get("start_kind", "random") != "random":
                kw["starting_tensor"] = x if case["start_kind"] == "x" else y
                ck.label("starting_tensor_is_operand")
        if form == "ediv":
            q = lib(lambda: T.elementwise_divide(x, y, **kw))
            num = xd
        else:
            sv = gen.build_scalar(case["s"], dt)
            q = lib(lambda: T.elementwise_divide(sv, y, **kw))
            num = torch.full_like(yd, float(case["s"]["value"]))
    if not ck.require(isinstance(q, T.TT) and not q.is_ttm and [int(n) for n in q.N] == list(N), "shape",
                      "quotient kind/shape: %s" % (getattr(q, "N", type(q)),)):
        return ck.verdict()
    qd = dense(q.cores)
    if not ck.require(bool(torch.isfinite(qd).all()), "finite", "quotient contains inf/nan"):
        return ck.verdict()
    allow = C_TOL * tol * fro(num) + 256 * d * u * fro(dense_abs(q.cores) * yd)
    ck.bound(fro(qd * yd - num), allow, "division:" + form, "tol=%g ranks=%s" % (tol, q.R))
    ck.nontrivial = any(r > 1 for r in y.R) and any(n >= 3 for n in N)
    return ck.verdict()
