"""C18 - incompatible operands raise an error instead of returning a wrong tensor."""
import os
import tempfile
import numpy as np
import torch
from hypothesis import strategies as st

from vt import core, gen
from vt.core import Checker, lib

RULE = ("For every public entry point a *valid* call is built from drawn small structures (order 1-4, sizes 1-4, ranks "
        "1-3) and then broken by exactly one mutation from a catalogue (mode-size mismatch at a drawn position with both "
        "sizes > 1, kind swap tensor<->operator, non-TT operand, inner-size mismatch, wrong index count / Ellipsis twice / "
        "unsupported index type, out-of-range axis, duplicate / out-of-range permutation, element-count mismatch, bad "
        "ranks / core dimensionality / boundary ranks, non-square or mismatching solver operands, ...), so invalidity is "
        "known by construction; every catalogue entry was checked to have no dense counterpart. Oracle: (hard) the "
        "invalid call raises an exception - returning a TT, tensor or number is a violation; (typed) where the entry "
        "point's docstring 'Raises:' covers the case, the exception is one of ShapeMismatch / RankMismatch / "
        "IncompatibleTypes / InvalidArguments / NotImplementedError. Non-trivial: the valid twin of the call succeeded in "
        "the same case (so the failure is caused by the one mutated aspect). Distinct = entry x structure signature.")
BUDGET = {"quick": 16000, "thorough": 320000}
FLOORS = {"quick": {"valid_twin_ok": 8000}}
FUZZ = {"thorough": 40000}     # coverage-guided add-on stage (vt/fuzz.py)
ASSUMPTIONS = ["documented error classes are transcribed from the docstrings' Raises sections into the catalogue (doc=True)",
               "calls that have a dense counterpart (documented broadcasting, negative pad = crop, reverse broadcasting) "
               "are not in the catalogue"]

LIBERR = ("ShapeMismatch", "RankMismatch", "IncompatibleTypes", "InvalidArguments", "NotImplementedError")


# ------------------------------------------------------------------------------------------------
# catalogue: name -> builder(T, P) -> (valid_thunk, invalid_thunk, documented: bool)
# P: dict with N, M, K (mode lists of equal length d), R1, R2, R3, k (position), seed, aux


def _tt(T, N, R, seed, M=None):
    spec = {"N": list(N), "R": list(R), "dt": "f64", "mode": "int", "seed": seed}
    if M is not None:
        spec["M"] = list(M)
    return T.TT(core.make_cores(spec))


def _other_size(n, aux):
    """a size != n and > 1 (so that no broadcasting rule applies)"""
    c = [m for m in (2, 3, 4, 5) if m != n]
    return c[aux % len(c)]


def _bump(N, k, aux):
    N2 = list(N)
    N2[k] = _other_size(max(N[k], 2) if N[k] == 1 else N[k], aux)
    return N2


NON_TT = [None, "abc", [1.0, 2.0], {"a": 1}]


def build_catalog():
    C = {}

    def entry(name, doc):
        def deco(fn):
            C[name] = (fn, doc)
            return fn
        return deco

    # ---- elementwise binary operators on tensors ----------------------------------------------
    for opname, f in (("add", lambda a, b: a + b), ("sub", lambda a, b: a - b), ("mul", lambda a, b: a * b)):
        def mk(opname=opname, f=f):
            @entry("%s:mode_mismatch" % opname, True)
            def _(T, P):
                N = [max(n, 2) for n in P["N"]]
                x = _tt(T, N, P["R1"], P["seed"])
                y = _tt(T, N, P["R2"], P["seed"] + 1)
                z = _tt(T, _bump(N, P["k"], P["aux"]), P["R2"], P["seed"] + 1)
                return (lambda: f(x, y)), (lambda: f(x, z)), None

            @entry("%s:kind_mismatch" % opname, True)
            def _(T, P):
                x = _tt(T, P["N"], P["R1"], P["seed"])
                y = _tt(T, P["N"], P["R2"], P["seed"] + 1)
                A = _tt(T, P["N"], P["R2"], P["seed"] + 1, M=P["M"])
                if P["aux"] % 2:
                    return (lambda: f(x, y)), (lambda: f(A, x)), None
                return (lambda: f(x, y)), (lambda: f(x, A)), None

            @entry("%s:non_tt_operand" % opname, opname != "add")
            def _(T, P):
                x = _tt(T, P["N"], P["R1"], P["seed"])
                # a multi-element tensor is named by the docstring of - only ("torch.tensor with 1 element")
                pool = NON_TT + ([torch.ones(3, dtype=torch.float64)] if opname == "sub" else [])
                bad = pool[P["aux"] % len(pool)]
                return (lambda: f(x, 2.0)), (lambda: f(x, bad)), None

            @entry("%s:multi_element_tensor" % opname, False)
            def _(T, P):
                x = _tt(T, P["N"], P["R1"], P["seed"])
                return (lambda: f(x, 2.0)), (lambda: f(x, torch.ones(3 + P["aux"] % 3, dtype=torch.float64))), None

            @entry("%s:first_shorter_trailing_mismatch" % opname, True)
            def _(T, P):
                # order mismatch with the shorter operand first and a trailing-aligned size clash: no dense counterpart
                # under torch's rules either (both sizes > 1 and different)
                N = [max(n, 2) for n in P["N"]] + [2 + P["aux"] % 3]
                d = len(N)
                j = 1 + P["k"] % (d - 1)
                x = _tt(T, N, P["R1"] + [1], P["seed"])
                ok = _tt(T, N[j:], [1] * (d - j + 1), P["seed"] + 1)
                Nb = _bump(N, j + (P["aux"] // 3) % (d - j), P["aux"])
                bad = _tt(T, Nb[j:], [1] * (d - j + 1), P["seed"] + 1)
                return (lambda: f(x, ok)), (lambda: f(bad, x)), None

            @entry("%s:operator_mode_mismatch" % opname, True)
            def _(T, P):
                N = [max(n, 2) for n in P["N"]]
                M = [max(n, 2) for n in P["M"]]
                A = _tt(T, N, P["R1"], P["seed"], M=M)
                B = _tt(T, N, P["R2"], P["seed"] + 1, M=M)
                if P["aux"] % 2:
                    Bb = _tt(T, _bump(N, P["k"], P["aux"]), P["R2"], P["seed"] + 1, M=M)
                else:
                    Bb = _tt(T, N, P["R2"], P["seed"] + 1, M=_bump(M, P["k"], P["aux"]))
                return (lambda: f(A, B)), (lambda: f(A, Bb)), None

            @entry("%s:operator_singleton_vs_n" % opname, True)
            def _(T, P):
                # operators document no broadcasting: a size-1 column mode against a size-n one has no counterpart
                N = [max(n, 2) for n in P["N"]]
                M = [max(n, 2) for n in P["M"]]
                A = _tt(T, N, P["R1"], P["seed"], M=M)
                B = _tt(T, N, P["R2"], P["seed"] + 1, M=M)
                N1 = list(N)
                N1[P["k"]] = 1
                M1 = list(M)
                M1[P["k"]] = 1
                Bb = _tt(T, N1, P["R2"], P["seed"] + 1, M=M1)
                return (lambda: f(A, B)), (lambda: f(A, Bb)), None
        mk()

    @entry("operator_add:order_mismatch", True)
    def _(T, P):
        A = _tt(T, P["N"], P["R1"], P["seed"], M=P["M"])
        B = _tt(T, P["N"], P["R2"], P["seed"] + 1, M=P["M"])
        Bb = _tt(T, P["N"] + [2], P["R2"] + [1], P["seed"] + 1, M=P["M"] + [2])
        return (lambda: A + B), (lambda: A + Bb), None

    # ---- matmul ------------------------------------------------------------------------------
    @entry("matmul:matvec_inner_mismatch", True)
    def _(T, P):
        N = [max(n, 2) for n in P["N"]]
        A = _tt(T, N, P["R1"], P["seed"], M=P["M"])
        x = _tt(T, N, P["R2"], P["seed"] + 1)
        xb = _tt(T, _bump(N, P["k"], P["aux"]), P["R2"], P["seed"] + 1)
        return (lambda: A @ x), (lambda: A @ xb), None

    @entry("matmul:vecmat_inner_mismatch", True)
    def _(T, P):
        M = [max(n, 2) for n in P["M"]]
        A = _tt(T, P["N"], P["R1"], P["seed"], M=M)
        x = _tt(T, M, P["R2"], P["seed"] + 1)
        xb = _tt(T, _bump(M, P["k"], P["aux"]), P["R2"], P["seed"] + 1)
        return (lambda: x @ A), (lambda: xb @ A), None

    @entry("matmul:matmat_inner_mismatch", True)
    def _(T, P):
        N = [max(n, 2) for n in P["N"]]
        A = _tt(T, N, P["R1"], P["seed"], M=P["M"])
        B = _tt(T, P["K"], P["R2"], P["seed"] + 1, M=N)
        Bb = _tt(T, P["K"], P["R2"], P["seed"] + 1, M=_bump(N, P["k"], P["aux"]))
        return (lambda: A @ B), (lambda: A @ Bb), None

    @entry("matmul:order_mismatch", True)
    def _(T, P):
        # one operand has an extra trailing (or leading) mode; TT rank 1 at the cut, so no later step fails by accident
        N, M, K = P["N"], P["M"], P["K"]
        d = len(N)
        one = [1] * (d + 1)
        A = _tt(T, N, P["R1"], P["seed"], M=M)
        x = _tt(T, N, P["R2"], P["seed"] + 1)
        xl = _tt(T, M, P["R2"], P["seed"] + 1)
        B = _tt(T, K, P["R2"], P["seed"] + 2, M=N)
        e = 2 + P["aux"] % 2
        v = P["aux"] % 6
        if v == 0:      # A @ x, x longer (trailing)
            xb = _tt(T, N + [e], P["R2"] + [1], P["seed"] + 1)
            return (lambda: A @ x), (lambda: A @ xb), None
        if v == 1:      # A @ x, x longer (leading)
            xb = _tt(T, [e] + N, [1] + P["R2"], P["seed"] + 1)
            return (lambda: A @ x), (lambda: A @ xb), None
        if v == 2:      # x @ A, x longer
            xb = _tt(T, M + [e], P["R2"] + [1], P["seed"] + 1)
            return (lambda: xl @ A), (lambda: xb @ A), None
        if v == 3:      # A @ B, B longer
            Bb = _tt(T, K + [e], P["R2"] + [1], P["seed"] + 2, M=N + [e])
            return (lambda: A @ B), (lambda: A @ Bb), None
        if v == 4:      # A longer than x
            Ab = _tt(T, N + [e], P["R1"] + [1], P["seed"], M=M + [e])
            return (lambda: A @ x), (lambda: Ab @ x), None
        Ab = _tt(T, N + [e], P["R1"] + [1], P["seed"], M=M + [e])      # A longer than B
        return (lambda: A @ B), (lambda: Ab @ B), None

    @entry("matmul:dense_trailing_mismatch", True)
    def _(T, P):
        N = [max(n, 2) for n in P["N"]]
        A = _tt(T, N, P["R1"], P["seed"], M=P["M"])
        x = torch.ones([2] + N, dtype=torch.float64)
        xb = torch.ones([2] + _bump(N, P["k"], P["aux"]), dtype=torch.float64)
        return (lambda: A @ x), (lambda: A @ xb), None

    @entry("matmul:tensor_tensor", True)
    def _(T, P):
        A = _tt(T, P["N"], P["R1"], P["seed"], M=P["N"])
        x = _tt(T, P["N"], P["R2"], P["seed"] + 1)
        return (lambda: A @ x), (lambda: x @ x), None

    @entry("matmul:non_tt_operand", True)
    def _(T, P):
        A = _tt(T, P["N"], P["R1"], P["seed"], M=P["M"])
        x = _tt(T, P["N"], P["R2"], P["seed"] + 1)
        bad = [3, None, "abc", 2.5][P["aux"] % 4]
        if P["aux"] % 3 == 0:
            return (lambda: A @ x), (lambda: x @ torch.ones(P["N"], dtype=torch.float64)), None
        return (lambda: A @ x), (lambda: A @ bad), None

    # ---- division, transpose, kron -------------------------------------------------------------
    @entry("truediv:kind_mismatch", True)
    def _(T, P):
        x = _tt(T, P["N"], P["R1"], P["seed"])
        A = _tt(T, P["N"], P["R2"], P["seed"] + 1, M=P["M"])
        return (lambda: x / 2.0), (lambda: x / A), None

    @entry("truediv:shape_mismatch", True)
    def _(T, P):
        N = [max(n, 2) for n in P["N"]]
        x = _tt(T, N, P["R1"], P["seed"])
        y = _tt(T, _bump(N, P["k"], P["aux"]), P["R2"], P["seed"] + 1)
        return (lambda: x / 2.0), (lambda: x / y), None

    @entry("truediv:non_tt_operand", True)
    def _(T, P):
        x = _tt(T, P["N"], P["R1"], P["seed"])
        bad = [None, "abc", [2.0], {"a": 1}][P["aux"] % 4]
        return (lambda: x / 2.0), (lambda: x / bad), None

    @entry("rtruediv:non_scalar", True)
    def _(T, P):
        x = _tt(T, P["N"], P["R1"], P["seed"])
        bad = [None, "abc", [2.0], torch.ones(3, dtype=torch.float64)][P["aux"] % 4]
        return (lambda: x * 1.0), (lambda: bad / x), None

    @entry("t:on_tensor", True)
    def _(T, P):
        x = _tt(T, P["N"], P["R1"], P["seed"])
        A = _tt(T, P["N"], P["R2"], P["seed"] + 1, M=P["M"])
        return (lambda: A.t()), (lambda: x.t()), None

    @entry("kron:kind_mismatch", True)
    def _(T, P):
        x = _tt(T, P["N"], P["R1"], P["seed"])
        y = _tt(T, P["N"], P["R2"], P["seed"] + 1)
        A = _tt(T, P["N"], P["R2"], P["seed"] + 1, M=P["M"])
        if P["aux"] % 2:
            return (lambda: T.kron(x, y)), (lambda: T.kron(x, A)), None
        return (lambda: x ** y), (lambda: A ** x), None

    @entry("kron:non_tt_operand", True)
    def _(T, P):
        x = _tt(T, P["N"], P["R1"], P["seed"])
        y = _tt(T, P["N"], P["R2"], P["seed"] + 1)
        bad = [3, "abc", [1.0], 2.5][P["aux"] % 4]
        if P["aux"] % 2:
            return (lambda: T.kron(x, y)), (lambda: T.kron(x, bad)), None
        return (lambda: x ** y), (lambda: x ** bad), None

    # ---- fast products / solvers ---------------------------------------------------------------
    @entry("fast_matvec:non_tt", True)
    def _(T, P):
        A = _tt(T, P["N"], P["R1"], P["seed"], M=P["M"])
        x = _tt(T, P["N"], P["R2"], P["seed"] + 1)
        bad = [3, None, torch.ones(P["N"], dtype=torch.float64)][P["aux"] % 3]
        return (lambda: A @ x), (lambda: A.fast_matvec(bad, use_cpp=False)), None

    @entry("fast_matvec:kind_confusion", True)
    def _(T, P):
        A = _tt(T, P["N"], P["R1"], P["seed"], M=P["M"])
        x = _tt(T, P["N"], P["R2"], P["seed"] + 1)
        if P["aux"] % 2:
            return (lambda: A @ x), (lambda: x.fast_matvec(x, use_cpp=False)), None
        return (lambda: A @ x), (lambda: A.fast_matvec(A, use_cpp=False)), None

    def solver_entries(name, call):
        @entry("%s:non_tt" % name, True)
        def _(T, P):
            N = [max(n, 2) for n in P["N"]]
            A = T.eye(N) * 2.0
            b = _tt(T, N, [1] * (len(N) + 1), P["seed"])
            bad = [None, 3, "abc", torch.ones(N, dtype=torch.float64)][P["aux"] % 4]
            if P["aux"] % 2:
                return (lambda: call(T, A, b)), (lambda: call(T, A, bad)), None
            return (lambda: call(T, A, b)), (lambda: call(T, bad, b)), None

        @entry("%s:kind_confusion" % name, True)
        def _(T, P):
            N = [max(n, 2) for n in P["N"]]
            A = T.eye(N) * 2.0
            b = _tt(T, N, [1] * (len(N) + 1), P["seed"])
            if P["aux"] % 2:
                return (lambda: call(T, A, b)), (lambda: call(T, b, b)), None
            return (lambda: call(T, A, b)), (lambda: call(T, A, A)), None

        @entry("%s:rhs_mismatch" % name, True)
        def _(T, P):
            N = [max(n, 2) for n in P["N"]]
            A = T.eye(N) * 2.0
            b = _tt(T, N, [1] * (len(N) + 1), P["seed"])
            bb = _tt(T, _bump(N, P["k"], P["aux"]), [1] * (len(N) + 1), P["seed"])
            return (lambda: call(T, A, b)), (lambda: call(T, A, bb)), None
    solver_entries("amen_solve", lambda T, A, b: T.solvers.amen_solve(A, b, eps=1e-6, nswp=4, use_cpp=False, verbose=False))
    solver_entries("amen_mv", lambda T, A, b: T.amen_mv(A, b, eps=1e-6, nswp=4))

    @entry("amen_solve:non_square", True)
    def _(T, P):
        N = [max(n, 2) for n in P["N"]]
        A = T.eye(N) * 2.0
        b = _tt(T, N, [1] * (len(N) + 1), P["seed"])
        Ab = _tt(T, N, [1] * (len(N) + 1), P["seed"] + 1, M=_bump(N, P["k"], P["aux"]))
        return (lambda: T.solvers.amen_solve(A, b, eps=1e-6, nswp=4, use_cpp=False, verbose=False)), \
               (lambda: T.solvers.amen_solve(Ab, b, eps=1e-6, nswp=4, use_cpp=False, verbose=False)), None

    @entry("amen_mm:inner_mismatch", False)
    def _(T, P):
        N = [max(n, 2) for n in P["N"]]
        A = _tt(T, N, P["R1"], P["seed"], M=P["M"])
        B = _tt(T, P["K"], P["R2"], P["seed"] + 1, M=N)
        Bb = _tt(T, P["K"], P["R2"], P["seed"] + 1, M=_bump(N, P["k"], P["aux"]))
        return (lambda: A @ B), (lambda: T.amen_mm(A, Bb, eps=1e-6, nswp=3)), None

    @entry("dmrg_hadamard:mode_mismatch", False)
    def _(T, P):
        N = [max(n, 2) for n in P["N"]]
        x = _tt(T, N, P["R1"], P["seed"])
        y = _tt(T, _bump(N, P["k"], P["aux"]), P["R2"], P["seed"] + 1)
        return (lambda: x * x), (lambda: T.dmrg_hadamard(x, y, eps=1e-6, nswp=3)), None

    @entry("manifold_projection:kind_mismatch", True)
    def _(T, P):
        x = _tt(T, P["N"], P["R1"], P["seed"])
        z = _tt(T, P["N"], P["R2"], P["seed"] + 1)
        A = _tt(T, P["N"], P["R2"], P["seed"] + 1, M=P["M"])
        return (lambda: T.manifold.riemannian_projection(x, z)), (lambda: T.manifold.riemannian_projection(x, A)), None

    # ---- reductions -----------------------------------------------------------------------------
    @entry("sum:axis_out_of_range", True)
    def _(T, P):
        x = _tt(T, P["N"], P["R1"], P["seed"])
        d = len(P["N"])
        bad = [d, d + 2, -d - 1][P["aux"] % 3]
        if P["aux"] % 2:
            return (lambda: x.sum(0)), (lambda: x.sum([0, bad]) if d > 1 else x.sum([bad])), None
        return (lambda: x.sum(0)), (lambda: x.sum(bad)), None

    @entry("sum:axis_wrong_type", True)
    def _(T, P):
        x = _tt(T, P["N"], P["R1"], P["seed"])
        bad = ["0", 0.5, (0,), {0}][P["aux"] % 4]
        return (lambda: x.sum(0)), (lambda: x.sum(bad)), None

    @entry("dot:non_tt", True)
    def _(T, P):
        x = _tt(T, P["N"], P["R1"], P["seed"])
        bad = [None, 2.0, torch.ones(P["N"], dtype=torch.float64)][P["aux"] % 3]
        if P["aux"] % 2:
            return (lambda: T.dot(x, x)), (lambda: T.dot(x, bad)), None
        return (lambda: T.dot(x, x)), (lambda: T.dot(bad, x)), None

    @entry("dot:operator", True)
    def _(T, P):
        x = _tt(T, P["N"], P["R1"], P["seed"])
        A = _tt(T, P["N"], P["R2"], P["seed"] + 1, M=P["N"])
        if P["aux"] % 2:
            return (lambda: T.dot(x, x)), (lambda: T.dot(A, A)), None
        return (lambda: T.dot(x, x)), (lambda: T.dot(x, A, [0])), None

    @entry("dot:mode_mismatch", True)
    def _(T, P):
        N = [max(n, 2) for n in P["N"]]
        x = _tt(T, N, P["R1"], P["seed"])
        y = _tt(T, _bump(N, P["k"], P["aux"]), P["R2"], P["seed"] + 1)
        return (lambda: T.dot(x, x)), (lambda: T.dot(x, y)), None

    @entry("dot_axis:b_mode_mismatch", True)
    def _(T, P):
        N = [max(n, 2) for n in P["N"]]
        d = len(N)
        x = _tt(T, N, P["R1"], P["seed"])
        ax = sorted({P["k"], (P["k"] + P["aux"]) % d})
        sub = [N[i] for i in ax]
        y = _tt(T, sub, [1] + [2] * (len(sub) - 1) + [1], P["seed"] + 1)
        j = P["aux"] % len(sub)
        subb = list(sub)
        subb[j] = [1, _other_size(sub[j], P["aux"])][P["aux"] % 2]     # size-1 has no counterpart either: no broadcasting in a contraction
        yb = _tt(T, subb, [1] + [2] * (len(sub) - 1) + [1], P["seed"] + 1)
        return (lambda: T.dot(x, y, ax)), (lambda: T.dot(x, yb, ax)), None

    @entry("bilinear_form:non_tt", True)
    def _(T, P):
        A = _tt(T, P["N"], P["R1"], P["seed"], M=P["M"])
        x = _tt(T, P["M"], P["R2"], P["seed"] + 1)
        y = _tt(T, P["N"], P["R3"], P["seed"] + 2)
        bad = [None, 2.0, "abc"][P["aux"] % 3]
        args = [[bad, A, y], [x, bad, y], [x, A, bad]][P["aux"] % 3]
        return (lambda: T.bilinear_form(x, A, y)), (lambda: T.bilinear_form(*args)), None

    @entry("bilinear_form:kind_confusion", True)
    def _(T, P):
        A = _tt(T, P["N"], P["R1"], P["seed"], M=P["N"])
        x = _tt(T, P["N"], P["R2"], P["seed"] + 1)
        args = [[A, A, x], [x, x, x], [x, A, A]][P["aux"] % 3]
        return (lambda: T.bilinear_form(x, A, x)), (lambda: T.bilinear_form(*args)), None

    @entry("bilinear_form:shape_mismatch", True)
    def _(T, P):
        N = [max(n, 2) for n in P["N"]]
        M = [max(n, 2) for n in P["M"]]
        A = _tt(T, N, P["R1"], P["seed"], M=M)
        x = _tt(T, M, P["R2"], P["seed"] + 1)
        y = _tt(T, N, P["R3"], P["seed"] + 2)
        if P["aux"] % 2:
            yb = _tt(T, _bump(N, P["k"], P["aux"]), P["R3"], P["seed"] + 2)
            return (lambda: T.bilinear_form(x, A, y)), (lambda: T.bilinear_form(x, A, yb)), None
        xb = _tt(T, _bump(M, P["k"], P["aux"]), P["R2"], P["seed"] + 1)
        return (lambda: T.bilinear_form(x, A, y)), (lambda: T.bilinear_form(xb, A, y)), None

    # ---- indexing -------------------------------------------------------------------------------
    @entry("getitem:ellipsis_twice", True)
    def _(T, P):
        x = _tt(T, P["N"], P["R1"], P["seed"])
        return (lambda: x[..., 0]), (lambda: x[..., 0, ...]), None

    @entry("getitem:operator_ellipsis", True)
    def _(T, P):
        A = _tt(T, P["N"], P["R1"], P["seed"], M=P["M"])
        d = len(P["N"])
        return (lambda: A[tuple([slice(None)] * (2 * d))]), (lambda: A[..., 0]), None

    @entry("getitem:too_few_indices", True)
    def _(T, P):
        N = P["N"] + [2]
        x = _tt(T, N, P["R1"] + [1], P["seed"])
        d = len(N)
        good = tuple([0] * d)
        bad = tuple([0] * (d - 1)) if P["aux"] % 2 else tuple([slice(None)] * (d - 1))
        return (lambda: x[good]), (lambda: x[bad]), None

    @entry("getitem:too_many_indices", False)
    def _(T, P):
        x = _tt(T, P["N"], P["R1"], P["seed"])
        d = len(P["N"])
        return (lambda: x[tuple([0] * d)]), (lambda: x[tuple([0] * (d + 1))]), None

    @entry("getitem:bare_on_order_gt1", True)
    def _(T, P):
        N = P["N"] + [2]
        x = _tt(T, N, P["R1"] + [1], P["seed"])
        bad = [0, slice(0, 1)][P["aux"] % 2]
        return (lambda: x[...]), (lambda: x[bad]), None

    @entry("getitem:bool_index", False)
    def _(T, P):
        # a python bool is an int for isinstance(); as an index it is neither the dense boolean-mask reading nor the
        # integer reading the library would have to pick: it has to be refused (it used to return a dense tensor of the
        # wrong shape)
        x = _tt(T, P["N"], P["R1"], P["seed"])
        d = len(P["N"])
        good = [0] * d
        bad = list(good)
        bad[P["k"]] = [True, False][P["aux"] % 2]
        if P["aux"] % 3 == 0 and d > 1:
            bad[(P["k"] + 1) % d] = slice(None)
            good[(P["k"] + 1) % d] = slice(None)
        return (lambda: x[tuple(good)]), (lambda: x[tuple(bad)] if d > 1 or P["aux"] % 5 else x[bad[0]]), None

    @entry("apply_mask:float_index_array", False)
    def _(T, P):
        x = _tt(T, P["N"], P["R1"], P["seed"])
        d = len(P["N"])
        return (lambda: x.apply_mask(np.zeros((2, d), dtype=np.int64))), (lambda: x.apply_mask(np.zeros((2, d), dtype=np.float64))), None

    @entry("getitem:unsupported_index_type", True)
    def _(T, P):
        x = _tt(T, P["N"], P["R1"], P["seed"])
        d = len(P["N"])
        bad = [0.5, "a", [0]][P["aux"] % 3]
        idx = [0] * d
        idx[P["k"]] = bad
        if d == 1 and P["aux"] % 2:
            return (lambda: x[0]), (lambda: x[bad if not isinstance(bad, list) else 0.5]), None
        return (lambda: x[tuple([0] * d)]), (lambda: x[tuple(idx)]), None

    @entry("getitem:operator_mixed_pair", True)
    def _(T, P):
        A = _tt(T, P["N"], P["R1"], P["seed"], M=P["M"])
        d = len(P["N"])
        good = tuple([slice(None)] * (2 * d))
        bad = list(good)
        bad[P["k"]] = 0
        return (lambda: A[good]), (lambda: A[tuple(bad)]), None

    @entry("getitem:int_out_of_range", False)
    def _(T, P):
        x = _tt(T, P["N"], P["R1"], P["seed"])
        d = len(P["N"])
        idx = [0] * d
        idx[P["k"]] = P["N"][P["k"]] if P["aux"] % 2 else -P["N"][P["k"]] - 1
        return (lambda: x[tuple([0] * d)]), (lambda: x[tuple(idx)]), None

    @entry("apply_mask:wrong_column_count", False)
    def _(T, P):
        x = _tt(T, P["N"], P["R1"], P["seed"])
        d = len(P["N"])
        good = torch.zeros((2, d), dtype=torch.int64)
        bad = torch.zeros((2, d + 1), dtype=torch.int64) if P["aux"] % 2 or d == 1 else torch.zeros((2, d - 1), dtype=torch.int64)
        if (P["aux"] // 2) % 3 == 1:
            # the documented list-of-lists form; the number of rows is a multiple of the order, so that a silent
            # regrouping of the entries into rows of d indices would go through
            rows = d * (1 + P["aux"] % 2)
            cols = d + 1 if P["aux"] % 2 or d == 1 else d - 1
            bad_l = [[0] * cols for _ in range(rows)]
            good_l = [[0] * d for _ in range(rows)]
            if (P["aux"] // 6) % 2:
                bad_l, good_l = [tuple(r) for r in bad_l], [tuple(r) for r in good_l]
            return (lambda: x.apply_mask(good_l)), (lambda: x.apply_mask(bad_l)), None
        return (lambda: x.apply_mask(good)), (lambda: x.apply_mask(bad)), None

    # ---- structural ops -------------------------------------------------------------------------
    @entry("set_core:bad_core", True)
    def _(T, P):
        d = len(P["N"])
        k = P["k"]
        R = P["R1"]

        def good():
            x = _tt(T, P["N"], R, P["seed"])
            x.set_core(k, torch.ones(R[k], 3, R[k + 1], dtype=torch.float64))
            return x

        def bad():
            x = _tt(T, P["N"], R, P["seed"])
            v = P["aux"] % 4
            if v == 0:
                x.set_core(d + P["aux"] % 2, torch.ones(R[k], 3, R[k + 1], dtype=torch.float64))
            elif v == 1:
                x.set_core(k, torch.ones(R[k] + 1, 3, R[k + 1], dtype=torch.float64))
            elif v == 2:
                x.set_core(k, torch.ones(R[k], 3, R[k + 1] + 2, dtype=torch.float64))
            else:
                x.set_core(k, torch.ones(R[k], 3, 2, R[k + 1], dtype=torch.float64))
            return x
        return good, bad, None

    @entry("set_core:bad_core_operator", True)
    def _(T, P):
        k = P["k"]
        R = P["R1"]

        def good():
            A = _tt(T, P["N"], R, P["seed"], M=P["M"])
            A.set_core(k, torch.ones(R[k], 2, 3, R[k + 1], dtype=torch.float64))
            return A

        def bad():
            A = _tt(T, P["N"], R, P["seed"], M=P["M"])
            v = P["aux"] % 3
            if v == 0:
                A.set_core(k, torch.ones(R[k] + 1, 2, 3, R[k + 1], dtype=torch.float64))
            elif v == 1:
                A.set_core(-1 - (P["aux"] % 2), torch.ones(R[k], 2, 3, R[k + 1], dtype=torch.float64))
            else:
                A.set_core(k, torch.ones(R[k], 2, R[k + 1], dtype=torch.float64))
            return A
        return good, bad, None

    @entry("mprod:on_operator", True)
    def _(T, P):
        x = _tt(T, P["N"], P["R1"], P["seed"])
        A = _tt(T, P["N"], P["R2"], P["seed"] + 1, M=P["M"])
        k = P["k"]
        F = torch.ones(2, P["N"][k], dtype=torch.float64)
        return (lambda: x.mprod(F, k)), (lambda: A.mprod(F, k)), None

    @entry("mprod:factor_shape", True)
    def _(T, P):
        N = [max(n, 2) for n in P["N"]]
        x = _tt(T, N, P["R1"], P["seed"])
        k = P["k"]
        F = torch.ones(2, N[k], dtype=torch.float64)
        Fb = torch.ones(2, _other_size(N[k], P["aux"]), dtype=torch.float64)
        if P["aux"] % 2:
            return (lambda: x.mprod([F], [k])), (lambda: x.mprod([Fb], [k])), None
        return (lambda: x.mprod(F, k)), (lambda: x.mprod(Fb, k)), None

    @entry("mprod:list_int_mix", True)
    def _(T, P):
        x = _tt(T, P["N"], P["R1"], P["seed"])
        k = P["k"]
        F = torch.ones(2, P["N"][k], dtype=torch.float64)
        if P["aux"] % 2:
            return (lambda: x.mprod(F, k)), (lambda: x.mprod([F], k)), None
        return (lambda: x.mprod(F, k)), (lambda: x.mprod(F, [k])), None

    @entry("qtt_to_tens:bad_shape", True)
    def _(T, P):
        d = len(P["N"])
        x = _tt(T, [2] * (d + 1), P["R1"] + [1], P["seed"])
        good = [2 ** (d + 1)]
        bad = [(2 ** (d + 1),), "8", [3] * (d + 1), [2 ** d, 4]][P["aux"] % 4]
        return (lambda: x.qtt_to_tens(good)), (lambda: x.qtt_to_tens(bad)), None

    @entry("to_qtt:non_square_operator", True)
    def _(T, P):
        d = len(P["N"])
        A = _tt(T, [4] * d, P["R1"], P["seed"], M=[4] * d)
        M = [4] * d
        M[P["k"]] = 2
        Ab = _tt(T, [4] * d, P["R1"], P["seed"], M=M)
        return (lambda: A.to_qtt()), (lambda: Ab.to_qtt()), None

    @entry("to_qtt:non_power_size", True)
    def _(T, P):
        d = len(P["N"])
        bad_n = [6, 12, 5][P["aux"] % 3]
        if P["aux"] % 2:
            N = [4] * d
            N[P["k"]] = bad_n
            A = _tt(T, [4] * d, P["R1"], P["seed"], M=[4] * d)
            Ab = _tt(T, N, P["R1"], P["seed"], M=N)
            return (lambda: A.to_qtt()), (lambda: Ab.to_qtt()), None
        bad_n = [6, 12][P["aux"] % 2]
        N = [4] * d
        N[P["k"]] = bad_n
        x = _tt(T, [4] * d, P["R1"], P["seed"])
        xb = _tt(T, N, P["R1"], P["seed"])
        return (lambda: x.to_qtt()), (lambda: xb.to_qtt()), None

    @entry("reshape:element_count", True)
    def _(T, P):
        N = [max(n, 2) for n in P["N"]]
        x = _tt(T, N, P["R1"], P["seed"])
        tot = int(np.prod(N))
        bad = [[tot + 1], [tot, 2], [tot // 2] if tot > 2 else [3]][P["aux"] % 3]
        if P["aux"] % 2:
            A = _tt(T, N, P["R1"], P["seed"], M=N)
            return (lambda: T.reshape(A, [(tot, tot)])), (lambda: T.reshape(A, [(tot, tot + 1)])), None
        return (lambda: T.reshape(x, [tot])), (lambda: T.reshape(x, bad)), None

    @entry("reshape:operator_one_sided_count", True)
    def _(T, P):
        # only the row count or only the column count of the requested operator shape is wrong (smaller or larger)
        N = [max(n, 2) for n in P["N"]]
        M = [max(n, 2) for n in P["M"]]
        A = _tt(T, N, P["R1"], P["seed"], M=M)
        k = P["k"]
        good = [(m, n) for m, n in zip(M, N)]
        bad = list(good)
        v = P["aux"] % 6
        m, n = good[k]
        sm = [q for q in (2, 3) if m % q == 0][0] if any(m % q == 0 for q in (2, 3)) else m
        sn = [q for q in (2, 3) if n % q == 0][0] if any(n % q == 0 for q in (2, 3)) else n
        if v == 0:
            bad[k] = (m // sm if m // sm >= 1 and sm != 1 else m + 1, n)
        elif v == 1:
            bad[k] = (m, n // sn if sn != 1 else n + 1)
        elif v == 2:
            bad[k] = (m * 2, n)
        elif v == 3:
            bad[k] = (m, n * 2)
        elif v == 4:
            bad = [(int(np.prod(M)) // sm if sm != 1 else int(np.prod(M)) + 1, int(np.prod(N)))]
        else:
            bad = good + [(1, 2)]
        return (lambda: T.reshape(A, good)), (lambda: T.reshape(A, bad)), None

    @entry("permute:invalid_dims", True)
    def _(T, P):
        N = P["N"] + [2]
        d = len(N)
        x = _tt(T, N, P["R1"] + [1], P["seed"])
        good = list(range(d))[::-1]
        v = P["aux"] % 4
        if v == 0:
            bad = good[:-1]
        elif v == 1:
            bad = [0] * d
        elif v == 2:
            bad = list(range(1, d + 1))
        else:
            return (lambda: T.permute(x, good)), (lambda: T.permute([1, 2], good)), None
        return (lambda: T.permute(x, good)), (lambda: T.permute(x, bad)), None

    @entry("cat:operator", True)
    def _(T, P):
        x = _tt(T, P["N"], P["R1"], P["seed"])
        A = _tt(T, P["N"], P["R2"], P["seed"] + 1, M=P["M"])
        args = [(A, A), (x, A)][P["aux"] % 2]
        return (lambda: T.cat((x, x), 0)), (lambda: T.cat(args, 0)), None

    @entry("cat:off_axis_mismatch", True)
    def _(T, P):
        N = [max(n, 2) for n in P["N"]] + [3]
        d = len(N)
        x = _tt(T, N, P["R1"] + [1], P["seed"])
        ax = P["k"]
        other = [i for i in range(d) if i != ax][P["aux"] % (d - 1)]
        Nb = list(N)
        Nb[other] = [1, _other_size(N[other], P["aux"])][P["aux"] % 2]
        y = _tt(T, Nb, P["R1"] + [1], P["seed"] + 1)
        return (lambda: T.cat((x, x), ax)), (lambda: T.cat((x, y), ax)), None

    @entry("cat:order_mismatch", True)
    def _(T, P):
        x = _tt(T, P["N"], P["R1"], P["seed"])
        y = _tt(T, P["N"] + [2], P["R1"] + [1], P["seed"] + 1)
        args = [(x, y), (y, x)][P["aux"] % 2]
        return (lambda: T.cat((x, x), 0)), (lambda: T.cat(args, 0)), None

    @entry("cat:axis_out_of_range", False)
    def _(T, P):
        x = _tt(T, P["N"], P["R1"], P["seed"])
        d = len(P["N"])
        bad = [d, d + 1, -d - 1][P["aux"] % 3]
        return (lambda: T.cat((x, x), 0)), (lambda: T.cat((x, x), bad)), None

    @entry("pad:too_many_paddings", True)
    def _(T, P):
        x = _tt(T, P["N"], P["R1"], P["seed"])
        A = _tt(T, P["N"], P["R1"], P["seed"], M=P["M"])
        d = len(P["N"])
        obj = [x, A][P["aux"] % 2]
        return (lambda: T.pad(obj, tuple((1, 1) for _ in range(d)))), (lambda: T.pad(obj, tuple((1, 1) for _ in range(d + 1)))), None

    for nm, fn in (("diag", lambda T, o: T.diag(o)), ("save", lambda T, o: _save(T, o))):
        def mk2(nm=nm, fn=fn):
            @entry("%s:non_tt" % nm, True)
            def _(T, P):
                x = _tt(T, P["N"], P["R1"], P["seed"])
                bad = [None, 3.0, torch.ones(P["N"], dtype=torch.float64), [x.cores[0]]][P["aux"] % 4]
                return (lambda: fn(T, x)), (lambda: fn(T, bad)), None
        mk2()

    # ---- constructors ---------------------------------------------------------------------------
    @entry("TT:inconsistent_ranks", True)
    def _(T, P):
        N = P["N"] + [2]
        R = P["R1"] + [1]
        spec = {"N": N, "R": R, "dt": "f64", "mode": "int", "seed": P["seed"]}
        k = P["k"]

        def bad():
            cs = core.make_cores(spec)
            c = cs[k]
            cs[k] = torch.ones(list(c.shape[:-1]) + [c.shape[-1] + 1], dtype=torch.float64)
            return T.TT(cs)
        return (lambda: T.TT(core.make_cores(spec))), bad, None

    @entry("TT:bad_core_dimensionality", True)
    def _(T, P):
        spec = {"N": P["N"], "R": P["R1"], "dt": "f64", "mode": "int", "seed": P["seed"]}
        k = P["k"]

        def bad():
            cs = core.make_cores(spec)
            c = cs[k]
            v = P["aux"] % 3
            if v == 0:
                cs[k] = c.reshape(c.shape[0], -1)[:, :c.shape[-1]] if c.shape[1] * c.shape[2] >= c.shape[-1] else c.reshape(c.shape[0], -1)
            elif v == 1:
                cs[k] = c.reshape(c.shape[0], c.shape[1], 1, 1, c.shape[2])
            else:
                cs[k] = c.reshape(c.shape[0], c.shape[1], 1, c.shape[2]) if len(cs) > 1 else c.reshape(c.shape[0], c.shape[1], 1, 1, c.shape[2])
            return T.TT(cs)
        return (lambda: T.TT(core.make_cores(spec))), bad, None

    @entry("TT:boundary_ranks", True)
    def _(T, P):
        spec = {"N": P["N"], "R": P["R1"], "dt": "f64", "mode": "int", "seed": P["seed"]}

        def bad():
            cs = core.make_cores(spec)
            if P["aux"] % 2:
                c = cs[0]
                cs[0] = torch.ones([2] + list(c.shape[1:]), dtype=torch.float64)
            else:
                c = cs[-1]
                cs[-1] = torch.ones(list(c.shape[:-1]) + [2], dtype=torch.float64)
            return T.TT(cs)
        return (lambda: T.TT(core.make_cores(spec))), bad, None

    @entry("TT:unsupported_source", True)
    def _(T, P):
        bad = ["abc", 3, 2.5, {"a": 1}, (torch.ones(1, 2, 1),)][P["aux"] % 5]
        return (lambda: T.TT(torch.ones(P["N"], dtype=torch.float64))), (lambda: T.TT(bad)), None

    @entry("TT:shape_element_count", False)
    def _(T, P):
        N = [max(n, 2) for n in P["N"]]
        A = torch.ones(N, dtype=torch.float64)
        Nb = _bump(N, P["k"], P["aux"])
        if P["aux"] % 2:
            return (lambda: T.TT(A, list(N))), (lambda: T.TT(A.numpy(), list(Nb))), None
        return (lambda: T.TT(A, list(N))), (lambda: T.TT(A, list(Nb))), None

    @entry("random:bad_ranks", True)
    def _(T, P):
        N = P["N"]
        d = len(N)
        R = P["R1"]
        v = P["aux"] % 3
        if v == 0:
            Rb = R + [1]
        elif v == 1:
            Rb = [2] + R[1:]
        else:
            Rb = R[:-1] + [2]
        return (lambda: T.random(list(N), list(R))), (lambda: T.random(list(N), list(Rb))), None

    @entry("zeros_ones:shape_not_list", True)
    def _(T, P):
        N = P["N"]
        f = [T.zeros, T.ones][P["aux"] % 2]
        bad = [tuple(N), 3, "33"][P["aux"] % 3]
        return (lambda: f(list(N))), (lambda: f(bad)), None

    @entry("layer:unknown_initializer", True)
    def _(T, P):
        d = len(P["N"])
        return (lambda: T.nn.LinearLayerTT(P["N"], P["M"], [1] + [2] * (d - 1) + [1])), \
               (lambda: T.nn.LinearLayerTT(P["N"], P["M"], [1] + [2] * (d - 1) + [1], initializer="Xavier")), None

    @entry("layer:input_trailing_mismatch", False)
    def _(T, P):
        N = [max(n, 2) for n in P["N"]]
        d = len(N)
        L = T.nn.LinearLayerTT(N, P["M"], [1] + [2] * (d - 1) + [1], dtype=torch.float64)
        return (lambda: L(torch.ones([2] + N, dtype=torch.float64))), \
               (lambda: L(torch.ones([2] + _bump(N, P["k"], P["aux"]), dtype=torch.float64))), None

    # ---- classes reported by the audit of C18 (invalid calls that returned an object) -----------------------------
    def _g2(N):
        return [max(n, 2) for n in N]

    @entry("truediv:multi_element_tensor", True)
    def _(T, P):
        x = _tt(T, P["N"], P["R1"], P["seed"])
        t = torch.ones(2 + P["aux"] % 3, dtype=torch.float64) * 2.0
        if P["aux"] % 2:
            t = t.reshape(-1, 1)
        return (lambda: x / 2.0), (lambda: x / t), None

    @entry("getitem:operator_odd_index_count", True)
    def _(T, P):
        A = _tt(T, P["N"], P["R1"], P["seed"], M=P["M"])
        d = len(P["N"])
        good = tuple([0] * (2 * d))
        bad = tuple([0] * (2 * d + 1)) if P["aux"] % 2 else tuple([slice(None)] * (2 * d) + [0])
        return (lambda: A[good]), (lambda: A[bad]), None

    def _guess_wrong_order(T, P):
        N = _g2(P["N"])
        g = _tt(T, N + [2], P["R3"] + [1], P["seed"] + 9)      # one trailing mode too many, rank 1 at the cut
        return N, g

    @entry("fast_matvec:initial_wrong_order", False)
    def _(T, P):
        N, g = _guess_wrong_order(T, P)
        A = _tt(T, N, P["R1"], P["seed"], M=N)
        x = _tt(T, N, P["R2"], P["seed"] + 1)
        ok = _tt(T, N, P["R3"], P["seed"] + 9)
        return (lambda: A.fast_matvec(x, initial=ok, eps=1e-6, use_cpp=False)), (lambda: A.fast_matvec(x, initial=g, eps=1e-6, use_cpp=False)), None

    @entry("dmrg_hadamard:z0_wrong_order", False)
    def _(T, P):
        N, g = _guess_wrong_order(T, P)
        x = _tt(T, N, P["R1"], P["seed"])
        y = _tt(T, N, P["R2"], P["seed"] + 1)
        ok = _tt(T, N, P["R3"], P["seed"] + 9)
        return (lambda: T.dmrg_hadamard(x, y, z0=ok, eps=1e-6, use_cpp=False)), (lambda: T.dmrg_hadamard(x, y, z0=g, eps=1e-6, use_cpp=False)), None

    @entry("amen_solve:x0_wrong_order", False)
    def _(T, P):
        N, g = _guess_wrong_order(T, P)
        A = T.eye(N)
        b = _tt(T, N, P["R2"], P["seed"] + 1)
        ok = _tt(T, N, P["R3"], P["seed"] + 9)
        return (lambda: T.solvers.amen_solve(A, b, x0=ok, eps=1e-6, nswp=4, use_cpp=False)), \
               (lambda: T.solvers.amen_solve(A, b, x0=g, eps=1e-6, nswp=4, use_cpp=False)), None

    def _pos(T, N, R, seed):
        z = _tt(T, N, R, seed)
        return z * z + 1.0

    @entry("elementwise_divide:start_wrong_order", False)
    def _(T, P):
        N, g = _guess_wrong_order(T, P)
        x = _tt(T, N, P["R1"], P["seed"])
        y = _pos(T, N, P["R3"], P["seed"] + 1)
        ok = _tt(T, N, P["R3"], P["seed"] + 9)
        return (lambda: T.elementwise_divide(x, y, eps=1e-6, starting_tensor=ok, nswp=6)), \
               (lambda: T.elementwise_divide(x, y, eps=1e-6, starting_tensor=g, nswp=6)), None

    def _with_one(N, k):
        N1 = list(N)
        N1[k] = 1
        return N1

    @entry("fast_matvec:singleton_vs_n", True)
    def _(T, P):
        N = _g2(P["N"])
        A = _tt(T, N, P["R1"], P["seed"], M=N)
        x = _tt(T, N, P["R2"], P["seed"] + 1)
        x1 = _tt(T, _with_one(N, P["k"]), P["R2"], P["seed"] + 1)
        return (lambda: A.fast_matvec(x, eps=1e-6, use_cpp=False)), (lambda: A.fast_matvec(x1, eps=1e-6, use_cpp=False)), None

    @entry("amen_mm:inner_singleton_vs_n", True)
    def _(T, P):
        N = _g2(P["N"])
        A = _tt(T, N, P["R1"], P["seed"], M=N)
        B = _tt(T, N, P["R3"], P["seed"] + 1, M=N)
        B1 = _tt(T, N, P["R3"], P["seed"] + 1, M=_with_one(N, P["k"]))
        return (lambda: T.amen_mm(A, B, eps=1e-6, nswp=4)), (lambda: T.amen_mm(A, B1, eps=1e-6, nswp=4)), None

    @entry("amen_mm:order_mismatch", True)
    def _(T, P):
        N = _g2(P["N"])
        A = _tt(T, N + [2], P["R1"] + [1], P["seed"], M=N + [2])
        B = _tt(T, N + [2], P["R3"] + [1], P["seed"] + 1, M=N + [2])
        Bs = _tt(T, N, P["R3"], P["seed"] + 1, M=N)
        return (lambda: T.amen_mm(A, B, eps=1e-6, nswp=4)), (lambda: T.amen_mm(A, Bs, eps=1e-6, nswp=4)), None

    @entry("manifold_projection:singleton_vs_n", False)
    def _(T, P):
        N = _g2(P["N"]) + [2]
        x = _tt(T, N, P["R1"] + [1], P["seed"])
        z = _tt(T, N, P["R2"] + [1], P["seed"] + 1)
        z1 = _tt(T, _with_one(N, P["k"]), P["R2"] + [1], P["seed"] + 1)
        return (lambda: T.manifold.riemannian_projection(x, z)), (lambda: T.manifold.riemannian_projection(x, z1)), None

    @entry("elementwise_divide:order_mismatch", False)
    def _(T, P):
        N = _g2(P["N"])
        x = _tt(T, N, P["R1"], P["seed"])
        y = _pos(T, N, P["R3"], P["seed"] + 1)
        yl = _pos(T, N + [2], P["R3"] + [1], P["seed"] + 1)
        if P["aux"] % 2:
            xl = _tt(T, N + [2], P["R1"] + [1], P["seed"])
            return (lambda: T.elementwise_divide(x, y, eps=1e-6, nswp=6)), (lambda: T.elementwise_divide(xl, y, eps=1e-6, nswp=6)), None
        return (lambda: T.elementwise_divide(x, y, eps=1e-6, nswp=6)), (lambda: T.elementwise_divide(x, yl, eps=1e-6, nswp=6)), None

    @entry("function_interpolate:argument_shape_mismatch", False)
    def _(T, P):
        N = _g2(P["N"])
        x = _tt(T, N, P["R3"], P["seed"])
        y = _tt(T, N, P["R3"], P["seed"] + 1)
        Nb = list(N)
        Nb[P["k"]] += 1 + P["aux"] % 2
        yb = _tt(T, Nb, P["R3"], P["seed"] + 1) if P["aux"] % 3 else _tt(T, N + [2], P["R3"] + [1], P["seed"] + 1)
        f = lambda v: v[:, 0] + v[:, 1]
        return (lambda: T.interpolate.function_interpolate(f, [x, y], eps=1e-6, nswp=4)), \
               (lambda: T.interpolate.function_interpolate(f, [x, yb], eps=1e-6, nswp=4)), None

    @entry("layer:mode_count_mismatch", False)
    def _(T, P):
        N, M = list(P["N"]), list(P["M"])
        d = len(N)
        R = [1] + [2] * (d - 1) + [1]
        if P["aux"] % 2:
            return (lambda: T.nn.LinearLayerTT(N, M, R)), (lambda: T.nn.LinearLayerTT(N + [2], M, R)), None
        return (lambda: T.nn.LinearLayerTT(N, M, R)), (lambda: T.nn.LinearLayerTT(N, M + [2], R)), None

    @entry("layer:rank_list_length", False)
    def _(T, P):
        N, M = list(P["N"]), list(P["M"])
        d = len(N)
        R = [1] + [2] * (d - 1) + [1]
        return (lambda: T.nn.LinearLayerTT(N, M, R)), (lambda: T.nn.LinearLayerTT(N, M, R + [1])), None

    @entry("layer:input_singleton_vs_n", False)
    def _(T, P):
        N = _g2(P["N"])
        d = len(N)
        L = T.nn.LinearLayerTT(N, P["M"], [1] + [2] * (d - 1) + [1], dtype=torch.float64)
        return (lambda: L(torch.ones(N, dtype=torch.float64))), (lambda: L(torch.ones(_with_one(N, P["k"]), dtype=torch.float64))), None

    @entry("mprod:list_length_mismatch", True)
    def _(T, P):
        N = list(P["N"]) + [3]
        x = _tt(T, N, P["R1"] + [1], P["seed"])
        F0 = torch.ones(2, N[0], dtype=torch.float64)
        if P["aux"] % 2:
            return (lambda: x.mprod([F0], [0])), (lambda: x.mprod([F0], [0, len(N) - 1])), None
        return (lambda: x.mprod([F0], [0])), (lambda: x.mprod([], [0])), None

    @entry("to_qtt:non_power_mode", True)
    def _(T, P):
        bad_n = [3, 5, 6, 9][P["aux"] % 4]
        x = _tt(T, [4, 8], [1, 2, 1], P["seed"])
        xb = _tt(T, [4, bad_n], [1, 2, 1], P["seed"])
        return (lambda: x.to_qtt()), (lambda: xb.to_qtt()), None

    @entry("sum:repeated_axis", True)
    def _(T, P):
        x = _tt(T, list(P["N"]) + [2], P["R1"] + [1], P["seed"])
        k = P["k"]
        return (lambda: x.sum([k])), (lambda: x.sum([k, k])), None

    @entry("dot_axis:repeated_axis", False)
    def _(T, P):
        N = _g2(P["N"]) + [2]
        x = _tt(T, N, P["R1"] + [1], P["seed"])
        k = P["k"]
        b1 = _tt(T, [N[k]], [1, 1], P["seed"] + 1)
        b2 = _tt(T, [N[k], N[k]], [1, 2, 1], P["seed"] + 1)
        return (lambda: T.dot(x, b1, [k])), (lambda: T.dot(x, b2, [k, k])), None

    @entry("reshape:negative_or_fractional_entries", True)
    def _(T, P):
        x = _tt(T, [4, 6], [1, 2, 1], P["seed"])
        bad = [[-4, -6], [24, 0.5, 2], [-2, -12]][P["aux"] % 3]
        return (lambda: T.reshape(x, [4, 6])), (lambda: T.reshape(x, bad)), None

    @entry("meshgrid:non_1d_input", False)
    def _(T, P):
        v = torch.arange(3, dtype=torch.float64)
        w = torch.arange(4, dtype=torch.float64)
        return (lambda: T.meshgrid([v, w])), (lambda: T.meshgrid([torch.ones(3, 2, dtype=torch.float64), w])), None

    @entry("shape:three_tuple_entries", False)
    def _(T, P):
        which = P["aux"] % 3
        if which == 0:
            return (lambda: T.ones([(2, 3), (2, 2)])), (lambda: T.ones([(2, 3, 4), (2, 2, 2)])), None
        if which == 1:
            return (lambda: T.zeros([(2, 3), (2, 2)])), (lambda: T.zeros([(2, 3, 4), (2, 2, 2)])), None
        return (lambda: T.randn([(2, 3), (2, 2)], [1, 2, 1])), (lambda: T.randn([(2, 3, 4), (2, 2, 2)], [1, 2, 1])), None

    @entry("randn:rank_list_length", True)
    def _(T, P):
        N = list(P["N"])
        d = len(N)
        R = [1] + [2] * (d - 1) + [1]
        f = T.randn if P["aux"] % 2 else T.random
        return (lambda: f(N, R)), (lambda: f(N, R + [1])), None

    @entry("round:rmax_list_length", False)
    def _(T, P):
        N = list(P["N"]) + [2, 2]
        x = _tt(T, N, P["R1"] + [1, 1], P["seed"])
        d = len(N)
        return (lambda: x.round(1e-10, [1] + [4] * (d - 1) + [1])), (lambda: x.round(1e-10, [1, 4, 1] if d > 2 else [1])), None

    @entry("amen_solve:unknown_option_value", True)
    def _(T, P):
        N = _g2(P["N"])
        A = T.eye(N)
        b = _tt(T, N, P["R2"], P["seed"] + 1)
        if P["aux"] % 2:
            return (lambda: T.solvers.amen_solve(A, b, eps=1e-6, nswp=3, use_cpp=False)), \
                   (lambda: T.solvers.amen_solve(A, b, eps=1e-6, nswp=3, use_cpp=False, preconditioner="zzz")), None
        return (lambda: T.solvers.amen_solve(A, b, eps=1e-6, nswp=3, use_cpp=False)), \
               (lambda: T.solvers.amen_solve(A, b, eps=1e-6, nswp=3, use_cpp=False, local_solver=5)), None

    @entry("cat:empty_sequence", False)
    def _(T, P):
        x = _tt(T, P["N"], P["R1"], P["seed"])
        return (lambda: T.cat((x, x), 0)), (lambda: T.cat((), 0)), None



    @entry("getitem:operator_bare_index", True)
    def _(T, P):
        A = _tt(T, P["N"][:1], [1, 1], P["seed"], M=P["M"][:1])
        bad = [0, slice(0, 1), -1][P["aux"] % 3]
        return (lambda: A[0, 0]), (lambda: A[bad]), None

    @entry("dot_axis:not_ascending", True)
    def _(T, P):
        # the modes of b are paired with the selected modes of a in ascending order; a permuted list with different mode
        # sizes has no counterpart under that rule (and under "pair in the listed order" the sizes chosen here clash too)
        x = _tt(T, [2, 3, 4], [1, 2, 2, 1], P["seed"])
        b = _tt(T, [2, 4], [1, 2, 1], P["seed"] + 1)
        return (lambda: T.dot(x, b, [0, 2])), (lambda: T.dot(x, b, [2, 0])), None



    @entry("function_interpolate:start_wrong_order", False)
    def _(T, P):
        N, g = _guess_wrong_order(T, P)
        x = _tt(T, N, P["R3"], P["seed"])
        ok = _tt(T, N, P["R3"], P["seed"] + 9)
        f = lambda v: v * v
        return (lambda: T.interpolate.function_interpolate(f, x, eps=1e-6, start_tens=ok, nswp=3)), \
               (lambda: T.interpolate.function_interpolate(f, x, eps=1e-6, start_tens=g, nswp=3)), None

    @entry("dmrg_cross:start_wrong_order", False)
    def _(T, P):
        N, g = _guess_wrong_order(T, P)
        R = P["R3"]
        if len(N) == 1:
            # dmrg_cross is a two-site scheme: it has no order-1 path at all (TypeError with or without x_start), so the
            # valid twin needs two modes
            N, R = N + [3], [1, 1, 1]
            g = _tt(T, N + [2], [1, 1, 1, 1], P["seed"] + 9)
        ok = _tt(T, N, R, P["seed"] + 9)
        f = lambda I: I.sum(1).to(torch.float64) + 1.0
        return (lambda: T.interpolate.dmrg_cross(f, list(N), eps=1e-6, x_start=ok, nswp=3)), \
               (lambda: T.interpolate.dmrg_cross(f, list(N), eps=1e-6, x_start=g, nswp=3)), None

    @entry("amen_mv:x0_wrong_order", False)
    def _(T, P):
        N, g = _guess_wrong_order(T, P)
        A = _tt(T, N, P["R1"], P["seed"], M=N)
        x = _tt(T, N, P["R2"], P["seed"] + 1)
        ok = _tt(T, N, P["R3"], P["seed"] + 9)
        return (lambda: T.amen_mv(A, x, x0=ok, eps=1e-6, nswp=4)), (lambda: T.amen_mv(A, x, x0=g, eps=1e-6, nswp=4)), None

    @entry("apply_mask:numpy_wrong_column_count", False)
    def _(T, P):
        x = _tt(T, P["N"], P["R1"], P["seed"])
        d = len(P["N"])
        return (lambda: x.apply_mask(np.zeros((2, d), dtype=np.int64))), (lambda: x.apply_mask(np.zeros((2, d + 1), dtype=np.int64))), None

    @entry("constructor:rmax_list_length", False)
    def _(T, P):
        N = list(P["N"]) + [2]
        d = len(N)
        A = torch.ones(N, dtype=torch.float64)
        bad = [1] + [3] * d + [1] if P["aux"] % 2 else [1] + [3] * (d - 2) + [1]
        return (lambda: T.TT(A, rmax=[1] + [3] * (d - 1) + [1])), (lambda: T.TT(A, rmax=bad)), None

    @entry("ranks:zero_rank", False)
    def _(T, P):
        N = list(P["N"]) + [2]
        d = len(N)
        x = _tt(T, N, P["R1"] + [1], P["seed"])
        which = P["aux"] % 3
        if which == 0:
            return (lambda: x.round(1e-12, 1)), (lambda: x.round(1e-12, 0)), None
        if which == 1:
            return (lambda: T.random(N, [1] + [1] * (d - 1) + [1])), (lambda: T.random(N, [1] + [0] * (d - 1) + [1])), None
        return (lambda: T.random(N, 1)), (lambda: T.random(N, 0)), None

    @entry("option:unknown_value", False)
    def _(T, P):
        N = _g2(P["N"])
        x = _tt(T, N, P["R1"], P["seed"])
        y = _pos(T, N, P["R3"], P["seed"] + 1)
        if P["aux"] % 2:
            A = T.eye(N)
            return (lambda: T.solvers.amen_solve(A, x, eps=1e-6, nswp=3, use_cpp=False)), \
                   (lambda: T.solvers.amen_solve(A, x, eps=1e-6, nswp=3, use_cpp=False, trunc_norm="zzz")), None
        return (lambda: T.elementwise_divide(x, y, eps=1e-6, nswp=6)), (lambda: T.elementwise_divide(x, y, eps=1e-6, nswp=6, preconditioner="zzz")), None


    return C


def _save(T, o):
    with tempfile.TemporaryDirectory(prefix="vt_c18_") as td:
        T.save(o, os.path.join(td, "x.TT"))
    return None


CATALOG = build_catalog()
NAMES = sorted(CATALOG)


@st.composite
def strategy_case(draw):
    name = draw(st.sampled_from(NAMES))
    d = draw(st.integers(1, 3))
    return {"entry": name,
            "N": draw(gen.modes(d, d, (1, 2, 3, 4), maxnumel=64, distinct_bias=0.4)),
            "M": draw(gen.modes(d, d, (1, 2, 3, 4), maxnumel=64, distinct_bias=0.4)),
            "K": draw(gen.modes(d, d, (1, 2, 3), maxnumel=27, distinct_bias=0.4)),
            "R1": draw(gen.ranks(d, 3)), "R2": draw(gen.ranks(d, 3)), "R3": draw(gen.ranks(d, 2)),
            "k": draw(st.integers(0, d - 1)), "aux": draw(st.integers(0, 59)), "seed": draw(gen.SEED)}


def strategy(tier):
    return strategy_case()


def features(case):
    return {"entry": case["entry"], "group": case["entry"].split(":")[0], "aux_mod6": case["aux"] % 6, "order": len(case["N"])}


def execute(case):
    T = core.tt()
    ck = Checker()
    name = case["entry"]
    fn, documented = CATALOG[name]
    ck.label("entry:" + name)
    valid, invalid, _ = fn(T, case)
    torch.manual_seed(case["seed"])
    try:
        lib(valid)
        ck.label("valid_twin_ok")
        twin_ok = True
    except core.LibraryException as e:
        # the valid twin failing is not C18's business (C03-C14 own it); the case is counted but not non-trivial
        ck.label("valid_twin_failed")
        ck.info["valid_twin_error"] = e.bucket
        twin_ok = False
    raised = None
    try:
        res = lib(invalid)
    except core.LibraryException as e:
        raised = e
    if raised is None:
        what = type(res).__name__
        if isinstance(res, T.TT):
            what += " N=%s" % (res.N,)
        ck.require(False, "returned:" + name, "invalid call (%s, aux=%d) returned %s instead of raising" % (name, case["aux"], what))
    else:
        tname = type(raised.orig).__name__
        ck.label("raised:" + tname)
        if documented:
            ck.require(tname in LIBERR, "undocumented_error_class:" + name,
                       "documented case %s raised %s (%s) instead of one of %s" % (name, tname, str(raised.orig)[:200], "/".join(LIBERR)))
    ck.nontrivial = twin_ok
    return ck.verdict()


def from_bytes(fdp):
    """Structured decoding of a libFuzzer byte string into a case (coverage-guided stage, vt/fuzz.py)."""
    ci = fdp.ConsumeIntInRange
    d = ci(1, 3)
    return {"entry": NAMES[ci(0, len(NAMES) - 1)],
            "N": [ci(1, 4) for _ in range(d)], "M": [ci(1, 4) for _ in range(d)], "K": [ci(1, 3) for _ in range(d)],
            "R1": [1] + [ci(1, 3) for _ in range(d - 1)] + [1], "R2": [1] + [ci(1, 3) for _ in range(d - 1)] + [1],
            "R3": [1] + [ci(1, 2) for _ in range(d - 1)] + [1], "k": ci(0, d - 1), "aux": ci(0, 59), "seed": ci(0, 2 ** 20)}
