"""
Shared machinery: importing torchtt from the working tree, an independent dense reference
(contraction of cores that does not use TT.full()), payload construction from drawn seeds,
tolerance model, library-call wrapper with failure bucketing, verdict objects.
"""
import os
import sys
import json
import hashlib
import traceback
import warnings
import math

os.environ.setdefault("OMP_NUM_THREADS", "1")
os.environ.setdefault("MKL_NUM_THREADS", "1")

import numpy as np
import torch

torch.set_num_threads(1)

VERIF_DIR = os.path.dirname(os.path.dirname(os.path.abspath(__file__)))
REPO = os.environ.get("VERIF_REPO", "/repo")

_tt = None


def tt():
    """Import torchtt from the working tree ($VERIF_REPO, default /repo) - never from site-packages."""
    global _tt
    if _tt is None:
        extra = os.environ.get("VERIF_CPP_DIR")
        if extra:
            sys.path.insert(0, extra)
        sys.path.insert(0, REPO)
        with warnings.catch_warnings():
            warnings.simplefilter("ignore")
            import torchtt
        here = os.path.realpath(os.path.dirname(torchtt.__file__))
        want = os.path.realpath(os.path.join(REPO, "torchtt"))
        if here != want:
            raise HarnessError("torchtt imported from %s, expected %s" % (here, want))
        _tt = torchtt
    return _tt


class HarnessError(Exception):
    """Raised for problems of the checker itself (never reported as a violation)."""


class LibraryException(Exception):
    """An exception raised inside a wrapped library call."""

    def __init__(self, orig, bucket, tb):
        super().__init__("%s: %s" % (type(orig).__name__, orig))
        self.orig = orig
        self.bucket = bucket
        self.tb = tb


def lib(fn, *a, **kw):
    """Run a library call; an exception inside it is a *library exception*, bucketed by
    (exception type, innermost torchtt frame)."""
    try:
        with warnings.catch_warnings():
            warnings.simplefilter("ignore")
            return fn(*a, **kw)
    except Exception as e:  # noqa
        tbs = traceback.extract_tb(e.__traceback__)
        where = "?"
        for fr in tbs:
            if "torchtt" in fr.filename.replace("\\", "/").split("/")[-2:-1] or "/torchtt/" in fr.filename:
                where = "%s:%s" % (os.path.basename(fr.filename), fr.name)
        bucket = "%s@%s" % (type(e).__name__, where)
        raise LibraryException(e, bucket, "".join(traceback.format_exception(type(e), e, e.__traceback__))[-1500:])


# ----------------------------------------------------------------------------------------------
# dtypes

DT = {"f64": torch.float64, "f32": torch.float32, "c128": torch.complex128, "c64": torch.complex64}
NPDT = {"f64": np.float64, "f32": np.float32, "c128": np.complex128, "c64": np.complex64}
WIDE = {"f64": torch.float64, "f32": torch.float64, "c128": torch.complex128, "c64": torch.complex128}
UNIT = {"f64": 2.0 ** -53, "f32": 2.0 ** -24, "c128": 2.0 ** -53, "c64": 2.0 ** -24}
MANT = {"f64": 2.0 ** 53, "f32": 2.0 ** 24, "c128": 2.0 ** 53, "c64": 2.0 ** 24}


def dtname(dtype):
    for k, v in DT.items():
        if v == dtype:
            return k
    return str(dtype)


def is_complex(dt):
    return dt in ("c128", "c64")


def widen(t):
    if t.is_complex():
        return t.to(torch.complex128)
    return t.to(torch.float64)


# ----------------------------------------------------------------------------------------------
# independent dense reference


def dense(cores, keep_graph=False, wide=True):
    """Contract a list of 3-d (tensor) or 4-d (operator) cores into the full array.
    Tensor: shape N. Operator: shape M + N (rows first).  Implemented as a chain of matrix
    products, independently of TT.full()."""
    cs = list(cores)
    if not keep_graph:
        cs = [c.detach() for c in cs]
    cs = [c.resolve_conj() for c in cs]
    if wide:
        cs = [widen(c) for c in cs]
    nd = cs[0].dim()
    if nd not in (3, 4):
        raise HarnessError("dense(): cores must be 3-d or 4-d")
    t = cs[0].reshape(-1, cs[0].shape[-1])
    for c in cs[1:]:
        if c.dim() != nd:
            raise HarnessError("dense(): mixed core dimensionality")
        t = t @ c.reshape(c.shape[0], -1)
        t = t.reshape(-1, c.shape[-1])
    if t.shape[-1] != 1 or cs[0].shape[0] != 1:
        raise HarnessError("dense(): boundary ranks are not 1")
    if nd == 3:
        return t.reshape([c.shape[1] for c in cs])
    d = len(cs)
    shp = []
    for c in cs:
        shp += [c.shape[1], c.shape[2]]
    t = t.reshape(shp)
    perm = [2 * i for i in range(d)] + [2 * i + 1 for i in range(d)]
    return t.permute(perm)


def dense_abs(cores):
    """Contraction of the entrywise absolute values of the cores: a rigorous bound on every partial
    sum appearing in any contraction order (used for exactness guards and roundoff scales)."""
    return dense([c.detach().abs() for c in cores])


def fro(t):
    """Frobenius norm, computed on the entries divided by the largest one (no underflow / overflow of the squares)."""
    v = widen(t).reshape(-1).abs()          # real and non-negative: dividing a complex tensor by a denormal overflows
    if v.numel() == 0:
        return 0.0
    m = float(v.max())
    if not (m > 0) or m != m or m == float("inf"):
        return m if m == m else float("nan")
    return m * float(torch.linalg.norm(v / m))


# ----------------------------------------------------------------------------------------------
# payloads


def rng(seed):
    g = torch.Generator()
    g.manual_seed(int(seed) & 0x7FFFFFFFFFFFFFFF)
    return g


def payload(shape, dt, mode, g, amp=2):
    """mode 'int': integers in [-amp, amp] (Gaussian integers for complex); 'gauss': N(0,1)."""
    dtype = DT[dt]
    if mode == "int":
        re = torch.randint(-amp, amp + 1, tuple(shape), generator=g).to(torch.float64)
        if is_complex(dt):
            im = torch.randint(-amp, amp + 1, tuple(shape), generator=g).to(torch.float64)
            return torch.complex(re, im).to(dtype)
        return re.to(dtype)
    if mode == "gauss":
        re = torch.randn(tuple(shape), generator=g, dtype=torch.float64)
        if is_complex(dt):
            im = torch.randn(tuple(shape), generator=g, dtype=torch.float64)
            return torch.complex(re, im).to(dtype)
        return re.to(dtype)
    raise HarnessError("unknown payload mode %r" % mode)


def make_cores(spec):
    """spec: {"N":[...], "R":[...], "M":[...]|None, "dt":..., "mode": "int"|"gauss", "seed": int, "amp": int}"""
    N, R, M = spec["N"], spec["R"], spec.get("M")
    g = rng(spec["seed"])
    cores = []
    for k in range(len(N)):
        shp = [R[k], N[k], R[k + 1]] if M is None else [R[k], M[k], N[k], R[k + 1]]
        cores.append(payload(shp, spec["dt"], spec["mode"], g, spec.get("amp", 2)))
    return cores


def make_tt(spec):
    return tt().TT(make_cores(spec))


def clone_cores(cores):
    return [c.clone() for c in cores]


# ----------------------------------------------------------------------------------------------
# comparison helpers


def bit_equal(a, b):
    a = widen(a)
    b = widen(b)
    return list(a.shape) == list(b.shape) and bool(torch.equal(a, b))


def rel_excess(got, ref, allowance):
    """error / allowance  (allowance > 0 absolute)."""
    err = fro(widen(got) - widen(ref))
    if allowance <= 0:
        return 0.0 if err == 0 else float("inf")
    return err / allowance


# ----------------------------------------------------------------------------------------------
# verdicts


class Verdict:
    __slots__ = ("ok", "check", "msg", "nontrivial", "classes", "ratio", "bucket", "info")

    def __init__(self, ok=True, check=None, msg="", nontrivial=False, classes=(), ratio=None, bucket=None, info=None):
        self.ok = ok
        self.check = check
        self.msg = msg
        self.nontrivial = nontrivial
        self.classes = list(classes)
        self.ratio = ratio
        self.bucket = bucket
        self.info = info or {}


class Checker:
    """Collects oracle clauses during execute(); the first failing clause decides the verdict."""

    def __init__(self):
        self.failed = None
        self.msg = ""
        self.ratio = 0.0
        self.classes = []
        self.nontrivial = False
        self.info = {}

    def label(self, *names):
        for n in names:
            if n is not None:
                self.classes.append(str(n))

    def require(self, cond, check, msg=""):
        if not cond and self.failed is None:
            self.failed = check
            self.msg = msg if isinstance(msg, str) else msg()
        return bool(cond)

    def bound(self, err, allowance, check, msg=""):
        """err <= allowance, tracking the worst ratio."""
        if allowance > 0:
            r = err / allowance
        else:
            r = 0.0 if err == 0 else float("inf")
        if not (r != r):  # NaN guard below
            self.ratio = max(self.ratio, r)
        ok = (err <= allowance) and not (err != err)
        if not ok and self.failed is None:
            self.failed = check
            self.msg = "%s: error %.3e > allowance %.3e (ratio %.3g) %s" % (check, err, allowance, r, msg)
        return ok

    def verdict(self):
        return Verdict(ok=self.failed is None, check=self.failed, msg=self.msg, nontrivial=self.nontrivial,
                       classes=self.classes, ratio=self.ratio, info=self.info)


def case_signature(case):
    """Structural signature: the case with every key containing 'seed' removed."""

    def strip(o):
        if isinstance(o, dict):
            return {k: strip(v) for k, v in sorted(o.items()) if "seed" not in k}
        if isinstance(o, (list, tuple)):
            return [strip(v) for v in o]
        return o

    s = json.dumps(strip(case), sort_keys=True, default=str)
    return hashlib.sha1(s.encode()).hexdigest()[:16]


def jsonable(o):
    if isinstance(o, dict):
        return {str(k): jsonable(v) for k, v in o.items()}
    if isinstance(o, (list, tuple)):
        return [jsonable(v) for v in o]
    if isinstance(o, (np.integer,)):
        return int(o)
    if isinstance(o, (np.floating,)):
        return float(o)
    if isinstance(o, float) and (o != o or o in (float("inf"), float("-inf"))):
        return str(o)
    if isinstance(o, complex):
        return {"re": o.real, "im": o.imag}
    if isinstance(o, (str, int, float, bool)) or o is None:
        return o
    return str(o)
