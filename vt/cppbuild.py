"""Builds the repository's C++ extension (cpp/cpp_ext.cpp) from $VERIF_REPO's working tree into
/verif/.build/<hash of cpp/* + flags>/torchttcpp.so (rebuilt whenever any file under cpp/ changes).
The repository's own recipe hard-codes -std=c++17, which the installed torch headers reject (#error C++20), so
the harness passes -std=c++20; sources, libraries (-lblas -llapack) and extension name are the repository's."""
import os
import sys
import glob
import hashlib
import subprocess
import sysconfig

VERIF = os.path.dirname(os.path.dirname(os.path.abspath(__file__)))


def build(repo=None, verbose=True):
    repo = repo or os.environ.get("VERIF_REPO", "/repo")
    import torch
    tdir = os.path.dirname(torch.__file__)
    srcs = sorted(glob.glob(os.path.join(repo, "cpp", "*")))
    flags = ["-O2", "-fPIC", "-shared", "-std=c++20", "-w", "-DTORCH_API_INCLUDE_EXTENSION_H", "-DTORCH_EXTENSION_NAME=torchttcpp"]
    h = hashlib.sha256()
    for s in srcs:
        if os.path.isfile(s):
            h.update(os.path.basename(s).encode())
            h.update(open(s, "rb").read())
    h.update(" ".join(flags).encode())
    h.update(torch.__version__.encode())
    out = os.path.join(VERIF, ".build", h.hexdigest()[:16])
    so = os.path.join(out, "torchttcpp.so")
    if os.path.exists(so):
        return out
    os.makedirs(out, exist_ok=True)
    inc = ["-I" + os.path.join(tdir, "include"), "-I" + os.path.join(tdir, "include", "torch", "csrc", "api", "include"),
           "-I" + sysconfig.get_paths()["include"]]
    cmd = ["g++"] + flags + inc + [os.path.join(repo, "cpp", "cpp_ext.cpp"), "-o", so + ".tmp",
                                   "-L" + os.path.join(tdir, "lib"), "-ltorch", "-ltorch_cpu", "-lc10", "-ltorch_python",
                                   "-Wl,-rpath," + os.path.join(tdir, "lib"), "-lblas", "-llapack"]
    if verbose:
        print("building the C++ extension from %s/cpp (about a minute) ..." % repo, flush=True)
    p = subprocess.run(cmd, capture_output=True, text=True)
    if p.returncode != 0:
        raise RuntimeError("C++ extension build failed:\n" + p.stderr[-3000:])
    os.replace(so + ".tmp", so)
    # keep only the newest few builds
    builds = sorted(glob.glob(os.path.join(VERIF, ".build", "*")), key=os.path.getmtime)
    for old in builds[:-3]:
        import shutil
        shutil.rmtree(old, ignore_errors=True)
    return out


if __name__ == "__main__":
    print(build())
