"""
Model-based history generator/executor shared by C05 (structural well-formedness of every reachable object)
and C06 (operations never change their operands).

A *program* is plain data: {"init": [object specs], "ops": [{"op": name, "a": i, "b": j, "c": k, "p": int, "seed": int}]}.
Operands are chosen from a pool of live objects *by construction*: an index selects the first compatible object
(cyclic search) and a compatible partner is synthesised when none exists. Every TT object created anywhere - also inside
library routines - is registered through a harness-side wrapper of TT.__init__ (weak references).
"""
import os
import tempfile
import weakref
import warnings
import numpy as np
import torch

from vt import core
from vt.core import dense, fro, lib, LibraryException

MAX_ORDER = 4
MAX_MODE = 4
MAX_NUMEL = 600
POOL_CAP = 14

OPS = [
    # constructors
    "new_cores", "new_cores_ttm", "tt_from_cores", "new_dense", "new_numpy", "new_dense_ttm", "random", "randn", "ones", "zeros", "eye", "rank1TT",
    "meshgrid",
    # algebra
    "add", "sub", "mul", "add_bcast", "kron", "kron_fn", "matvec", "vecmat", "matmat", "mat_dense", "tt_div",
    "sadd", "ssub", "smul", "sdiv", "rsub", "rmul", "radd", "neg", "pos", "sdiv_tensor",
    # unary / structure
    "round", "round_rmax", "t", "conj", "clone", "detach", "to_same", "to_c128", "cpu", "to_ttm", "sum_all", "sum_idx", "norm",
    "full", "numpy", "dot", "dot_axis", "bilinear", "getitem", "getitem_none", "apply_mask", "reshape", "permute", "to_qtt",
    "qtt_roundtrip", "diag", "cat", "pad", "mprod", "saveload",
    # iterative routines (with pooled optional arguments)
    "fast_matvec", "fast_matvec_init", "dmrg_hadamard", "dmrg_hadamard_init", "amen_mv", "amen_mv_init", "amen_mm", "amen_mm_init",
    "amen_solve", "amen_solve_x0", "ediv", "ediv_start", "func_interp", "func_interp_start", "dmrg_cross", "dmrg_cross_start",
    "riem_proj", "riem_grad",
    # in-place
    "set_core", "set_core_newsize", "reduce_dims", "reduce_dims_exclude", "watch", "unwatch",
]
INPLACE = {"set_core", "set_core_newsize", "reduce_dims", "reduce_dims_exclude", "watch", "unwatch"}
OPTIONAL_ARG = {"fast_matvec_init", "dmrg_hadamard_init", "amen_mv_init", "amen_mm_init", "amen_solve_x0", "ediv_start",
                "func_interp_start", "dmrg_cross_start"}


# ------------------------------------------------------------------------------------------------
# registry of every TT object created


class Registry:
    def __init__(self, T):
        self.T = T
        self.refs = []
        self.orig = T.TT.__init__
        reg = self

        def wrapped(obj, *a, **kw):
            reg.orig(obj, *a, **kw)
            try:
                reg.refs.append(weakref.ref(obj))
            except TypeError:
                pass
        self.wrapped = wrapped

    def __enter__(self):
        self.T.TT.__init__ = self.wrapped
        return self

    def __exit__(self, *a):
        self.T.TT.__init__ = self.orig

    def alive(self):
        out = []
        keep = []
        for r in self.refs:
            o = r()
            if o is not None:
                out.append(o)
                keep.append(r)
        self.refs = keep
        return out


# ------------------------------------------------------------------------------------------------
# invariants


def wellformed(T, o, check_full=True):
    """returns None or a description of the structural inconsistency"""
    cores = getattr(o, "cores", None)
    if not isinstance(cores, list):
        return "cores is %s, not a list" % type(cores).__name__
    if len(cores) == 0:
        return None  # the documented empty TT
    if not all(torch.is_tensor(c) for c in cores):
        return "cores holds non-tensors"
    nd = cores[0].dim()
    if nd not in (3, 4) or any(c.dim() != nd for c in cores):
        return "cores are not all 3-d or all 4-d: dims %s" % [c.dim() for c in cores]
    for i in range(len(cores) - 1):
        if cores[i].shape[-1] != cores[i + 1].shape[0]:
            return "cores %d and %d disagree on the shared rank (%d vs %d)" % (i, i + 1, cores[i].shape[-1], cores[i + 1].shape[0])
    if cores[0].shape[0] != 1 or cores[-1].shape[-1] != 1:
        return "boundary ranks are %d and %d" % (cores[0].shape[0], cores[-1].shape[-1])
    R = [1] + [int(c.shape[-1]) for c in cores]
    N = [int(c.shape[-2]) for c in cores]
    M = [int(c.shape[1]) for c in cores] if nd == 4 else None
    try:
        if [int(r) for r in o.R] != R:
            return "R reports %s, cores have %s" % (o.R, R)
        if [int(n) for n in o.N] != N:
            return "N reports %s, cores have %s" % (o.N, N)
        if bool(o.is_ttm) != (nd == 4):
            return "is_ttm=%s but cores are %d-d" % (o.is_ttm, nd)
        if nd == 4 and [int(m) for m in o.M] != M:
            return "M reports %s, cores have %s" % (o.M, M)
    except Exception as e:  # noqa
        return "metadata access failed: %s: %s" % (type(e).__name__, e)
    if hasattr(o, "shape"):
        exp = [(m, n) for m, n in zip(M, N)] if nd == 4 else N
        got = [tuple(int(v) for v in s) if isinstance(s, (tuple, list)) else int(s) for s in o.shape]
        if got != exp:
            return "shape attribute reports %s, cores have %s" % (o.shape, exp)
    # the properties return copies
    r = o.R
    r.append(99)
    n = o.N
    n.append(99)
    if len(o.R) != len(R) or len(o.N) != len(N):
        return "R/N return the internal list (mutating the returned list changed the object)"
    if nd == 4:
        m = o.M
        m.append(99)
        if len(o.M) != len(M):
            return "M returns the internal list"
    if len({c.dtype for c in cores}) != 1:
        return "cores have mixed dtypes %s" % sorted({str(c.dtype) for c in cores})
    if check_full:
        try:
            with warnings.catch_warnings():
                warnings.simplefilter("ignore")
                f = o.full()
        except Exception as e:  # noqa
            return "full() failed on a structurally valid object: %s: %s" % (type(e).__name__, e)
        exp = (M + N) if nd == 4 else N
        if list(f.shape) != exp:
            return "full() has shape %s, M+N is %s" % (list(f.shape), exp)
    return None


class Snapshot:
    def __init__(self, o):
        self.cores_list = o.cores
        self.core_objs = list(o.cores)
        self.values = [c.detach().resolve_conj().clone() for c in o.cores]
        self.R = [int(r) for r in o.R]
        self.N = [int(n) for n in o.N]
        self.is_ttm = bool(o.is_ttm)
        self.M = [int(m) for m in o.M] if self.is_ttm else None
        self.dtype = o.cores[0].dtype if o.cores else None

    def changed(self, o):
        """None if o still is what was snapshotted; otherwise a description."""
        try:
            R = [int(r) for r in o.R]
            N = [int(n) for n in o.N]
            M = [int(m) for m in o.M] if o.is_ttm else None
        except Exception as e:  # noqa
            return "metadata access failed: %s" % e
        if bool(o.is_ttm) != self.is_ttm or N != self.N or M != self.M:
            return "shape changed from N=%s M=%s to N=%s M=%s" % (self.N, self.M, N, M)
        if R != self.R:
            return "ranks changed from %s to %s" % (self.R, R)
        if len(o.cores) != len(self.values):
            return "number of cores changed"
        if o.cores and o.cores[0].dtype != self.dtype:
            return "dtype changed from %s to %s" % (self.dtype, o.cores[0].dtype)
        same = all(a.shape == b.shape and torch.equal(a.detach().resolve_conj(), b) for a, b in zip(o.cores, self.values))
        if same and all(bool(torch.isfinite(b).all()) for b in self.values):
            return None
        if same:
            # torch.equal is False for nan anyway; an operand that had non-finite entries from the start is not judged
            return None
        # cores differ: is the dense value still the same (gauge change) ?
        try:
            new = dense(o.cores)
            old = dense(self.values)
        except Exception as e:  # noqa
            return "cores changed and can no longer be contracted: %s" % e
        if list(new.shape) != list(old.shape):
            return "value changed (shape of the contraction differs)"
        scale = max(fro(dense([v.abs() for v in self.values])), 1e-300)
        err = fro(new - old)
        if not (err <= 1e-10 * scale):        # (also true for nan)
            return "dense value changed: ||new-old|| = %.3g (scale %.3g)" % (err, scale)
        return None


# ------------------------------------------------------------------------------------------------
# executor


class Machine:
    def __init__(self, T, program, mode):
        self.T = T
        self.prog = program
        self.mode = mode          # "wellformed" (C05) or "immutable" (C06)
        self.pool = []
        self.stats = {"ops": 0, "lib_exceptions": {}, "inplace_followed": 0, "optional_arg": 0, "derived_from_modified": 0,
                      "skipped": 0}
        self.last_related = []    # result and operands of the previous operation (in-place ops prefer them as receivers)
        self.modified = set()     # ids of objects modified in place
        self.trace = []
        self.step_before = []     # (object, Snapshot) of operands created during the current step
        self.in_step = False

    # -- helpers ----------------------------------------------------------------------------------
    def keep(self, lst, what):
        """register a list the harness hands to the library as an argument: it is the caller's object and must keep its
        value for the rest of the history (a library object that stored it by reference would change it later)"""
        import copy
        if not hasattr(self, "user_lists"):
            self.user_lists = []
        self.user_lists.append((lst, copy.deepcopy(lst), what))
        return lst

    def user_list_changed(self):
        for lst, orig, what in getattr(self, "user_lists", []):
            if lst != orig:
                return "%s: the caller's list changed from %s to %s" % (what, orig, lst)
        for lst, orig in getattr(self, "user_core_lists", []):
            if len(lst) != len(orig) or any(a is not b for a, b in zip(lst, orig)):
                return "list of cores given to TT(cores): the caller's list was rewritten (entries replaced by the library)"
        return None

    def g(self, seed):
        return core.rng(seed)

    def mk_t(self, N, seed, rmax=2):
        g = self.g(seed)
        d = len(N)
        R = [1] + [int(torch.randint(1, rmax + 1, (1,), generator=g)) for _ in range(d - 1)] + [1]
        o = self.T.TT(core.make_cores({"N": list(N), "R": R, "dt": "f64", "mode": "gauss", "seed": seed}))
        return self.watch_operand(o) if self.in_step else o

    def mk_m(self, M, N, seed, rmax=2):
        g = self.g(seed)
        d = len(N)
        R = [1] + [int(torch.randint(1, rmax + 1, (1,), generator=g)) for _ in range(d - 1)] + [1]
        o = self.T.TT(core.make_cores({"N": list(N), "M": list(M), "R": R, "dt": "f64", "mode": "gauss", "seed": seed}))
        return self.watch_operand(o) if self.in_step else o

    def shape_for(self, seed, d=None, lim=MAX_MODE):
        g = self.g(seed)
        d = d or int(torch.randint(1, MAX_ORDER + 1, (1,), generator=g))
        return [int(torch.randint(1, lim + 1, (1,), generator=g)) for _ in range(d)]

    def ok_size(self, o):
        try:
            n = int(np.prod(o.N)) * (int(np.prod(o.M)) if o.is_ttm else 1)
            return 1 <= len(o.N) <= MAX_ORDER + 1 and n <= MAX_NUMEL and all(int(r) <= 12 for r in o.R)
        except Exception:
            return False

    def watch_operand(self, o):
        """operands created inside a step (synthesised partners, divisors, initial guesses) are snapshotted when they are
        created, i.e. before the library call that receives them"""
        if self.mode == "immutable" and isinstance(o, self.T.TT) and len(o.cores) > 0:
            self.step_before.append((o, Snapshot(o)))
        return o

    def add(self, o):
        if self.mode == "immutable" and getattr(self, "in_step", False):
            self.watch_operand(o)
        if isinstance(o, self.T.TT) and len(o.cores) > 0 and self.ok_size(o):
            if len(self.pool) >= POOL_CAP:
                self.pool.pop(3 + (len(self.trace) % (POOL_CAP - 3)))
            self.pool.append(o)

    def pick(self, i, pred):
        n = len(self.pool)
        for k in range(n):
            o = self.pool[(i + k) % n]
            try:
                if pred(o):
                    return o
            except Exception:
                pass
        return None

    def tensor(self, i, pred=lambda o: True):
        o = self.pick(i, lambda o: (not o.is_ttm) and pred(o))
        return o

    def operator(self, i, pred=lambda o: True):
        return self.pick(i, lambda o: o.is_ttm and pred(o))

    def real(self, o):
        return not o.cores[0].is_complex()

    # -- one operation ------------------------------------------------------------------------------
    def apply(self, op):
        T = self.T
        name, a, b, c, p, seed = op["op"], op.get("a", 0), op.get("b", 0), op.get("c", 0), op.get("p", 0), op.get("seed", 0)
        g = self.g(seed)
        res = None
        target = None       # in-place receiver
        operands = []

        def need_t(i, pred=lambda o: True, N=None):
            o = self.tensor(i, (lambda o: pred(o) and (N is None or o.N == list(N))))
            if o is None:
                o = self.mk_t(N if N is not None else self.shape_for(seed), seed + 1)
                self.add(o)
            return o

        def need_m(i, pred=lambda o: True, M=None, N=None):
            o = self.operator(i, (lambda o: pred(o) and (N is None or o.N == list(N)) and (M is None or o.M == list(M))))
            if o is None:
                if N is None:
                    N = self.shape_for(seed, lim=3)[:3]
                if M is None:
                    M = self.shape_for(seed + 5, d=len(N), lim=3)
                o = self.mk_m(M, N, seed + 2)
                self.add(o)
            return o

        realp = self.real
        # ------------------------------------------------------------------ constructors
        if name == "new_cores":
            res = self.mk_t(self.shape_for(seed), seed, rmax=3)
        elif name == "tt_from_cores":
            # the documented constructor from a list of cores, given (p even) the core list of a live object or (p odd) a
            # list the caller keeps: the new object must own its list (a later set_core / reduce_dims on either object
            # must not reach the other, nor the caller's list)
            x = self.pick(a, lambda o: True)
            operands = [x]
            if p % 2 == 0:
                res = T.TT(x.cores)
            else:
                lst = [c.clone() for c in x.cores]
                if not hasattr(self, "user_core_lists"):
                    self.user_core_lists = []
                self.user_core_lists.append((lst, list(lst)))
                res = T.TT(lst)
                if p % 4 == 1:
                    self.add(T.TT(lst))
        elif name == "new_cores_ttm":
            N = self.shape_for(seed, lim=3)[:3]
            res = self.mk_m(self.shape_for(seed + 1, d=len(N), lim=3), N, seed, rmax=3)
        elif name in ("new_dense", "new_numpy"):
            N = self.shape_for(seed)
            A = core.payload(N, "f64", "gauss", g)
            eps = [1e-12, 1e-2, 0.3][p % 3]
            if p % 2:
                res = T.TT(A.numpy() if name == "new_numpy" else A, eps=eps)
            else:
                # the shape list is the caller's: one list object is reused for every construction with these mode sizes
                if not hasattr(self, "shape_lists"):
                    self.shape_lists = {}
                shp = self.shape_lists.get(tuple(N))
                if shp is None:
                    shp = self.shape_lists[tuple(N)] = self.keep(list(N), "shape list of TT(dense, shape)")
                res = T.TT(A.numpy() if name == "new_numpy" else A, shp, eps=eps)
        elif name == "new_dense_ttm":
            N = self.shape_for(seed, lim=3)[:3]
            M = self.shape_for(seed + 1, d=len(N), lim=3)
            res = T.TT(core.payload(M + N, "f64", "gauss", g), self.keep([(m, n) for m, n in zip(M, N)], "shape list of TT(dense, shape)"), eps=[1e-12, 0.2][p % 2])
        elif name in ("random", "randn"):
            N = self.shape_for(seed)
            d = len(N)
            R = [1] + [1 + (p + k) % 3 for k in range(d - 1)] + [1]
            shp = [(n, 1 + (n + p) % 3) for n in N] if p % 3 == 0 else list(N)
            self.keep(shp, "shape list of random/randn")
            self.keep(R, "rank list of random/randn")
            res = T.random(shp, R) if name == "random" else T.randn(shp, R)
        elif name in ("ones", "zeros"):
            N = self.shape_for(seed)
            shp = [(n, 1 + (n + p) % 3) for n in N] if p % 3 == 0 else list(N)
            res = (T.ones if name == "ones" else T.zeros)(self.keep(shp, "shape list of ones/zeros"))
        elif name == "eye":
            res = T.eye(self.shape_for(seed, lim=3)[:3])
        elif name == "rank1TT":
            N = self.shape_for(seed)
            res = T.rank1TT([core.payload([n, 2] if p % 2 else [n], "f64", "gauss", g) for n in N])
        elif name == "meshgrid":
            N = self.shape_for(seed)[:3]
            lst = T.meshgrid([torch.arange(n, dtype=torch.float64) for n in N])
            for o in lst:
                self.add(o)
            res = None
        # ------------------------------------------------------------------ algebra
        elif name in ("add", "sub", "mul"):
            x = self.pick(a, lambda o: True)
            y = self.pick(b, lambda o: o is not x and o.is_ttm == x.is_ttm and o.N == x.N and (not x.is_ttm or o.M == x.M) and
                          o.cores[0].dtype == x.cores[0].dtype)
            if y is None:
                y = x if p % 3 == 0 else (self.mk_m(x.M, x.N, seed + 3) if x.is_ttm else self.mk_t(x.N, seed + 3))
                if y is not x and x.cores[0].is_complex():
                    y = y.to(dtype=torch.complex128)
                self.add(y) if y is not x else None
            operands = [x, y]
            res = x + y if name == "add" else (x - y if name == "sub" else x * y)
        elif name == "add_bcast":
            x = need_t(a, lambda o: len(o.N) >= 2)
            k = 1 + p % (len(x.N) - 1)
            Ny = [1 if (p >> j) & 1 else n for j, n in enumerate(x.N[-k:])]
            y = self.tensor(b, lambda o: o.N == Ny and o.cores[0].dtype == x.cores[0].dtype)
            if y is None:
                y = self.mk_t(Ny, seed + 3)
                if x.cores[0].is_complex():
                    y = y.to(dtype=torch.complex128)
                self.add(y)
            operands = [x, y]
            res = [x + y, x - y, x * y][p % 3]
        elif name in ("kron", "kron_fn"):
            x = self.pick(a, lambda o: len(o.N) <= 2)
            y = self.pick(b, lambda o: x is not None and o.is_ttm == x.is_ttm and len(o.N) <= 2 and o.cores[0].dtype == x.cores[0].dtype)
            if x is None or y is None:
                x = self.mk_t(self.shape_for(seed, d=2), seed)
                y = self.mk_t(self.shape_for(seed + 1, d=1), seed + 1)
            operands = [x, y]
            res = (x ** y) if name == "kron" else T.kron(x, y)
            if p % 3 == 0:
                res = (T.kron(x, None) if p % 2 else T.kron(None, x)) if name == "kron_fn" else x ** None
        elif name in ("matvec", "vecmat", "matmat", "mat_dense", "fast_matvec", "fast_matvec_init", "amen_mv", "amen_mv_init",
                      "amen_mm", "amen_mm_init", "bilinear"):
            A = need_m(a, realp if name not in ("matvec", "vecmat", "matmat", "mat_dense", "fast_matvec", "fast_matvec_init") else (lambda o: True))
            dtA = A.cores[0].dtype

            def same_dt(o):
                return o.cores[0].dtype == dtA
            if name in ("matvec", "mat_dense", "fast_matvec", "fast_matvec_init", "amen_mv", "amen_mv_init", "bilinear"):
                x = self.tensor(b, lambda o: o.N == A.N and same_dt(o))
                if x is None:
                    x = self.mk_t(A.N, seed + 3)
                    x = x.to(dtype=dtA) if dtA != torch.float64 else x
                    self.add(x)
                operands = [A, x]
                if name == "matvec":
                    res = A @ x
                elif name == "mat_dense":
                    A @ x.full().detach().reshape(A.N)
                elif name == "bilinear":
                    xl = self.tensor(c, lambda o: o.N == A.M and same_dt(o))
                    if xl is None:
                        xl = self.mk_t(A.M, seed + 4)
                        self.add(xl)
                    operands.append(xl)
                    T.bilinear_form(xl, A, x)
                else:
                    init = None
                    if name.endswith("_init"):
                        init = self.tensor(c, lambda o: o.N == A.M and same_dt(o) and (o is not x or p % 5 == 0))
                        if init is None:
                            init = self.mk_t(A.M, seed + 4, rmax=3)
                            init = init.to(dtype=dtA) if dtA != torch.float64 else init
                            self.add(init)
                        operands.append(init)
                        self.stats["optional_arg"] += 1
                    torch.manual_seed(seed)
                    if name.startswith("fast_matvec"):
                        res = A.fast_matvec(x, eps=[1e-10, 1e-3][p % 2], initial=init, use_cpp=False)
                    else:
                        res = T.amen_mv(A, x, x0=init, eps=[1e-9, 1e-3][p % 2], nswp=8)
            elif name == "vecmat":
                x = self.tensor(b, lambda o: o.N == A.M and same_dt(o))
                if x is None:
                    x = self.mk_t(A.M, seed + 3)
                    x = x.to(dtype=dtA) if dtA != torch.float64 else x
                    self.add(x)
                operands = [x, A]
                res = x @ A
            else:
                B = self.operator(b, lambda o: o.M == A.N and same_dt(o))
                if B is None:
                    B = self.mk_m(A.N, self.shape_for(seed + 7, d=len(A.N), lim=3), seed + 3)
                    B = B.to(dtype=dtA) if dtA != torch.float64 else B
                    self.add(B)
                operands = [A, B]
                if name == "matmat":
                    res = A @ B
                else:
                    init = None
                    if name.endswith("_init"):
                        init = self.operator(c, lambda o: o.M == A.M and o.N == B.N and same_dt(o) and o is not A and o is not B)
                        if init is None:
                            init = self.mk_m(A.M, B.N, seed + 4)
                            self.add(init)
                        operands.append(init)
                        self.stats["optional_arg"] += 1
                    torch.manual_seed(seed)
                    res = T.amen_mm(A, B, X0=init, eps=[1e-9, 1e-3][p % 2], nswp=8)
        elif name in ("tt_div", "ediv", "ediv_start"):
            x = need_t(a, lambda o: realp(o) and len(o.N) >= 2 and int(np.prod(o.N)) <= 200)
            z = self.mk_t(x.N, seed + 3, rmax=1)
            y = self.watch_operand(z * z + 1.0)
            self.add(y)
            operands = [x, y]
            torch.manual_seed(seed)
            if name == "tt_div":
                res = x / y if p % 2 else 2.0 / y
            else:
                st = None
                if name == "ediv_start":
                    st = self.tensor(c, lambda o: o.N == x.N and realp(o) and ((o is not x and o is not y) or p % 5 == 0))
                    if st is None:
                        st = self.mk_t(x.N, seed + 4)
                        self.add(st)
                    operands.append(st)
                    self.stats["optional_arg"] += 1
                res = T.elementwise_divide(x, y, eps=1e-6, starting_tensor=st, nswp=10, preconditioner=[None, "c"][p % 2])
        elif name in ("sadd", "ssub", "smul", "sdiv", "rsub", "rmul", "radd", "neg", "pos", "sdiv_tensor"):
            x = self.pick(a, lambda o: True)
            operands = [x]
            s = [2.0, -1.5, 3, 0.5, 0][p % 5]
            if name == "sadd":
                # now and then a scalar of another dtype category (complex on a real object, a float64 one-element tensor on
                # anything): the library may refuse it, but whatever it returns has to be a well-formed object
                if p % 7 == 0:
                    s = 1j if p % 2 else torch.tensor([2.5], dtype=torch.float64)
                res = x + s
            elif name == "ssub":
                res = x - (torch.tensor(float(s), dtype=x.cores[0].dtype) if p % 2 else s)
            elif name == "smul":
                if p % 4 == 3 and not x.cores[0].is_complex():
                    s = torch.tensor(3) if p % 8 == 3 else torch.tensor(1.5, dtype=torch.float32 if x.cores[0].dtype == torch.float64 else torch.float64)
                res = x * s
            elif name == "sdiv":
                res = x / (s if s != 0 else 4)
            elif name == "sdiv_tensor":
                res = x / torch.tensor(2.0, dtype=torch.float64)
            elif name == "rsub":
                res = s - x
            elif name == "rmul":
                res = s * x
            elif name == "radd":
                res = s + x
            elif name == "neg":
                res = -x
            else:
                res = +x
        # ------------------------------------------------------------------ unary / structure
        elif name in ("round", "round_rmax"):
            x = self.pick(a, lambda o: True)
            operands = [x]
            if name == "round":
                res = x.round([1e-12, 1e-3, 0.3, 0.0][p % 4])
            elif p % 2:
                res = x.round(1e-10, self.keep([1] + [1 + (p // 2 + j) % 3 for j in range(len(x.N) - 1)] + [1], "rmax list of round"))
            else:
                res = x.round(1e-10, 1 + p % 3)
        elif name == "t":
            A = need_m(a)
            operands = [A]
            res = A.t()
        elif name in ("conj", "clone", "detach", "to_same", "cpu", "to_c128"):
            x = self.pick(a, lambda o: True)
            operands = [x]
            res = {"conj": lambda: x.conj(), "clone": lambda: x.clone(), "detach": lambda: x.detach(), "to_same": lambda: x.to(dtype=x.cores[0].dtype),
                   "cpu": lambda: x.cpu(), "to_c128": lambda: x.to(dtype=torch.complex128)}[name]()
        elif name == "to_ttm":
            x = need_t(a)
            operands = [x]
            res = x.to_ttm()
        elif name in ("sum_all", "norm", "full", "numpy"):
            x = self.pick(a, lambda o: True)
            operands = [x]
            if name == "sum_all":
                x.sum()
            elif name == "norm":
                x.norm(bool(p % 2))
            elif name == "full":
                x.full()
            else:
                x.numpy()
        elif name == "sum_idx":
            x = self.pick(a, lambda o: True)
            operands = [x]
            d = len(x.N)
            idx = sorted({(p + k) % d for k in range(1 + p % d)})
            res = x.sum(self.keep(idx, "index list of sum") if p % 2 else idx[0])
        elif name in ("dot", "dot_axis"):
            x = need_t(a)
            operands = [x]
            if name == "dot":
                y = self.tensor(b, lambda o: o.N == x.N and o.cores[0].dtype == x.cores[0].dtype)
                y = y or x
                operands.append(y)
                T.dot(x, y)
            else:
                d = len(x.N)
                ax = sorted({(p + k) % d for k in range(1 + (p // 3) % d)})
                sub = [x.N[i] for i in ax]
                y = self.tensor(b, lambda o: o.N == sub and o.cores[0].dtype == x.cores[0].dtype)
                if y is None:
                    y = self.mk_t(sub, seed + 3)
                    y = y.to(dtype=x.cores[0].dtype) if x.cores[0].is_complex() else y
                    self.add(y)
                operands.append(y)
                res = T.dot(x, y, ax)
        elif name in ("getitem", "getitem_none"):
            x = self.pick(a, lambda o: True)
            operands = [x]
            d = len(x.N)
            if x.is_ttm:
                rows, cols = [], []
                for k in range(d):
                    v = (p >> k) % 3
                    if v == 0:
                        rows.append(int(x.M[k]) - 1)
                        cols.append(0)
                    elif v == 1:
                        rows.append(slice(None))
                        cols.append(slice(None))
                    else:
                        rows.append(slice(0, max(1, x.M[k] // 2)))
                        cols.append(slice(0, max(1, x.N[k] - 1)))
                expr = tuple(rows + cols)
            else:
                expr = []
                for k in range(d):
                    v = (p >> k) % 4
                    expr.append([x.N[k] - 1, slice(None), slice(0, max(1, x.N[k] // 2)), slice(None, None, 2)][v])
                if name == "getitem_none":
                    expr.insert((p // 7) % (d + 1), None)
                expr = tuple(expr)
            res = x[expr]
        elif name == "apply_mask":
            x = need_t(a)
            operands = [x]
            idx = torch.stack([torch.randint(0, n, (1 + p % 3,), generator=g) for n in x.N], 1)
            x.apply_mask(idx)
        elif name == "reshape":
            x = self.pick(a, lambda o: True)
            operands = [x]
            if x.is_ttm:
                tgt = [(int(np.prod(x.M)), int(np.prod(x.N)))] if p % 2 else [(m, n) for m, n in zip(x.M, x.N)] + [(1, 1)]
            else:
                tot = int(np.prod(x.N))
                f = [q for q in (2, 3, 4) if tot % q == 0]
                tgt = [tot] if (p % 3 == 0 or not f) else ([f[p % len(f)], tot // f[p % len(f)]] if p % 3 == 1 else [1, tot // f[0], f[0]])
            res = T.reshape(x, self.keep(tgt, "shape list of reshape"), eps=[1e-14, 1e-4][p % 2])
        elif name == "permute":
            x = self.pick(a, lambda o: len(o.N) >= 2)
            if x is None:
                x = self.mk_t(self.shape_for(seed, d=3), seed)
                self.add(x)
            operands = [x]
            d = len(x.N)
            perm = list(torch.randperm(d, generator=g).numpy())
            res = T.permute(x, self.keep([int(v) for v in perm], "dims list of permute"), eps=1e-10)
        elif name in ("to_qtt", "qtt_roundtrip"):
            x = self.tensor(a, lambda o: all(n in (1, 2, 4) for n in o.N))
            if x is None:
                x = self.mk_t([4, 2, 4][:1 + p % 3], seed)
                self.add(x)
            operands = [x]
            q = x.to_qtt(eps=1e-10)
            res = q if name == "to_qtt" else q.qtt_to_tens(self.keep(list(x.N), "shape list of qtt_to_tens"))
        elif name == "diag":
            x = self.pick(a, lambda o: (not o.is_ttm) or o.M == o.N)
            if x is None:
                x = need_t(a)
            operands = [x]
            res = T.diag(x)
        elif name == "cat":
            x = need_t(a)
            ax = p % len(x.N)
            N2 = list(x.N)
            N2[ax] = 1 + p % 3
            y = self.tensor(b, lambda o: o.N == N2 and o.cores[0].dtype == x.cores[0].dtype)
            if y is None:
                y = self.mk_t(N2, seed + 3)
                y = y.to(dtype=x.cores[0].dtype) if x.cores[0].is_complex() else y
                self.add(y)
            operands = [x, y]
            res = T.cat((x, y), ax)
        elif name == "pad":
            x = self.pick(a, lambda o: True)
            operands = [x]
            k = 1 + p % len(x.N)
            res = T.pad(x, tuple(((p + j) % 2, (p // 2 + j) % 2) for j in range(k)), value=[0.0, 2.0][p % 2])
        elif name == "mprod":
            x = need_t(a)
            operands = [x]
            k = p % len(x.N)
            Fm = core.payload([1 + p % 3, x.N[k]], "f64", "gauss", g).to(x.cores[0].dtype)
            res = x.mprod(Fm, k) if p % 2 else x.mprod([Fm], self.keep([k], "mode list of mprod"))
        elif name == "saveload":
            x = self.pick(a, lambda o: True)
            operands = [x]
            with tempfile.TemporaryDirectory(prefix="vt_m_") as td:
                fpath = os.path.join(td, "x.TT")
                T.save(x, fpath)
                res = T.load(fpath)
        # ------------------------------------------------------------------ iterative
        elif name in ("dmrg_hadamard", "dmrg_hadamard_init"):
            x = need_t(a, lambda o: len(o.N) >= 1)
            y = self.tensor(b, lambda o: o.N == x.N and o.cores[0].dtype == x.cores[0].dtype) or x
            operands = [x, y]
            init = None
            if name.endswith("_init"):
                init = self.tensor(c, lambda o: o.N == x.N and o.cores[0].dtype == x.cores[0].dtype and ((o is not x and o is not y) or p % 5 == 0))
                if init is None:
                    init = self.mk_t(x.N, seed + 4, rmax=3)
                    init = init.to(dtype=x.cores[0].dtype) if x.cores[0].is_complex() else init
                    self.add(init)
                operands.append(init)
                self.stats["optional_arg"] += 1
            torch.manual_seed(seed)
            res = T.dmrg_hadamard(x, y, z0=init, eps=[1e-10, 1e-3][p % 2])
        elif name in ("amen_solve", "amen_solve_x0"):
            N = self.shape_for(seed, lim=4)[:3]
            N = [max(2, n) for n in N]
            E = self.mk_m(N, N, seed + 1)
            A = self.watch_operand(T.eye(N) + E * (0.2 / max(float(E.norm()), 1e-300)))
            bvec = self.tensor(b, lambda o: o.N == N and realp(o))
            if bvec is None:
                bvec = self.mk_t(N, seed + 2)
                self.add(bvec)
            self.add(A)
            operands = [A, bvec]
            x0 = None
            if name.endswith("_x0"):
                x0 = self.tensor(c, lambda o: o.N == N and realp(o) and (o is not bvec or p % 5 == 0))
                if x0 is None:
                    x0 = self.mk_t(N, seed + 3)
                    self.add(x0)
                operands.append(x0)
                self.stats["optional_arg"] += 1
            torch.manual_seed(seed)
            res = T.solvers.amen_solve(A, bvec, x0=x0, eps=1e-6, nswp=8, use_cpp=False, verbose=False,
                                       preconditioner=[None, "c", "r"][p % 3], max_full=[500, 0][(p // 3) % 2])
        elif name in ("func_interp", "func_interp_start", "dmrg_cross", "dmrg_cross_start"):
            x = need_t(a, lambda o: realp(o) and len(o.N) >= 2 and int(np.prod(o.N)) <= 200)
            operands = [x]
            st = None
            if name.endswith("_start"):
                st = self.tensor(c, lambda o: o.N == x.N and realp(o) and (o is not x or p % 5 == 0))
                if st is None:
                    st = self.mk_t(x.N, seed + 4)
                    self.add(st)
                operands.append(st)
                self.stats["optional_arg"] += 1
            torch.manual_seed(seed)
            if name.startswith("func_interp"):
                res = T.interpolate.function_interpolate(lambda v: torch.tanh(v), x, eps=1e-5, start_tens=st, nswp=4)
            else:
                N = list(x.N)
                res = T.interpolate.dmrg_cross(lambda I: 1.0 / (2.0 + I.to(torch.float64).sum(1)), N, eps=1e-5, x_start=st, nswp=4)
        elif name in ("riem_proj", "riem_grad"):
            x = self.pick(a, realp)
            if x is None:
                x = need_t(a, realp)
            z = self.pick(b, lambda o: o.is_ttm == x.is_ttm and o.N == x.N and (not x.is_ttm or o.M == x.M) and realp(o))
            z = z or x
            operands = [x, z]
            if name == "riem_proj":
                res = T.manifold.riemannian_projection(x, z)
            else:
                res = T.manifold.riemannian_gradient(x, lambda y: 0.5 * (y - z).norm(True))
        # ------------------------------------------------------------------ in-place
        elif name in ("set_core", "set_core_newsize"):
            x = self.pick(a, lambda o: True)
            rel = [o for o in self.last_related if any(o is q for q in self.pool)]
            if rel and p % 2 == 0:
                # modify an object that the previous operation produced or consumed (parent/child and alias histories)
                x = rel[(p // 2) % len(rel)]
            target = x
            k = p % len(x.N)
            shp = list(x.cores[k].shape)
            if name == "set_core_newsize":
                shp[1] = 1 + (shp[1] + p) % 3
            newc = core.payload(shp, "f64", "gauss", g)
            x.set_core(k, newc.to(torch.float32) if p % 5 == 1 else newc.to(x.cores[k].dtype))
        elif name in ("reduce_dims", "reduce_dims_exclude"):
            x = self.pick(a, lambda o: any(n == 1 and (not o.is_ttm or o.M[i] == 1) for i, n in enumerate(o.N)) and
                          any(n > 1 for n in o.N))
            rel = [o for o in self.last_related if any(o is q for q in self.pool) and
                   any(n == 1 and (not o.is_ttm or o.M[i] == 1) for i, n in enumerate(o.N)) and any(n > 1 for n in o.N)]
            if rel and p % 2 == 0:
                x = rel[(p // 2) % len(rel)]
            if x is None:
                base = self.mk_t([2, 1, 3, 1][:2 + p % 3], seed)
                self.add(base)
                x = base
            target = x
            if name == "reduce_dims":
                x.reduce_dims()
            else:
                x.reduce_dims([p % len(x.N)])
        elif name in ("watch", "unwatch"):
            x = self.pick(a, lambda o: all(cc.is_leaf for cc in o.cores) and not o.cores[0].is_complex())
            if x is None:
                x = self.mk_t(self.shape_for(seed), seed)
                self.add(x)
            target = x
            if name == "watch":
                T.grad.watch(x, None if p % 2 else [p % len(x.cores)])
            else:
                T.grad.unwatch(x)
        else:
            raise core.HarnessError("unknown op " + name)
        return res, target, operands

    # -- run ------------------------------------------------------------------------------------------
    def run(self, ck):
        T = self.T
        with Registry(T) as reg:
            for k, spec in enumerate(self.prog["init"]):
                o = T.TT(core.make_cores(spec))
                self.pool.append(o)
            last_inplace_target = None
            for step, op in enumerate(self.prog["ops"]):
                if not self.pool:
                    break
                name = op["op"]
                before = [(o, Snapshot(o)) for o in self.pool] if self.mode == "immutable" else []
                self.step_before = []
                self.in_step = True
                err = None
                res = target = None
                operands = []
                try:
                    res, target, operands = lib(self.apply, op)
                except LibraryException as e:
                    err = e
                    self.stats["lib_exceptions"][name + "|" + e.bucket] = self.stats["lib_exceptions"].get(name + "|" + e.bucket, 0) + 1
                self.in_step = False
                self.stats["ops"] += 1
                self.trace.append(name if err is None else name + "!")
                if any(id(o) in self.modified for o in operands) or (target is not None and id(target) in self.modified):
                    self.stats["inplace_followed"] += 1
                if name in INPLACE and err is None and target is not None and name not in ("watch", "unwatch"):
                    self.modified.add(id(target))
                if isinstance(res, T.TT) and any(id(o) in self.modified for o in operands):
                    self.stats["derived_from_modified"] += 1
                    self.modified.add(id(res))
                if isinstance(res, T.TT):
                    self.add(res)
                if name not in INPLACE:
                    self.last_related = [o for o in ([res] + list(operands)) if isinstance(o, T.TT)]
                # ---- invariants
                if self.mode == "wellformed":
                    for o in reg.alive():
                        fresh = (o is res) or (o is target)
                        msg = wellformed(T, o, check_full=fresh and self.ok_size(o))
                        if msg is not None:
                            ck.require(False, "malformed_after:" + name, "step %d (%s): %s [object N=%s]" % (
                                step, name, msg, getattr(o, "_TT__N", "?")))
                            return
                else:
                    exempt = target if (name in INPLACE and name not in ("watch", "unwatch")) else None
                    seen_ids = {id(o) for o, _ in before}
                    for o, snap in before + [(o2, s2) for o2, s2 in self.step_before if id(o2) not in seen_ids and o2 is not res]:
                        if o is exempt:
                            continue
                        msg = snap.changed(o)
                        if msg is not None:
                            role = "operand %d" % [id(q) for q in operands].index(id(o)) if id(o) in [id(q) for q in operands] else "bystander"
                            ck.require(False, "operand_changed_by:" + name, "step %d (%s): %s of the call: %s" % (step, name, role, msg))
                            return
                msg = self.user_list_changed()
                if msg is not None:
                    ck.require(False, ("malformed_after:" if self.mode == "wellformed" else "operand_changed_by:") + name,
                               "step %d (%s): %s" % (step, name, msg))
                    return
            # final sweep: every live object is still well formed including full()
            if self.mode == "wellformed":
                for o in reg.alive():
                    msg = wellformed(T, o, check_full=self.ok_size(o))
                    if msg is not None:
                        ck.require(False, "malformed_at_end", "%s [trace %s]" % (msg, " ".join(self.trace[-6:])))
                        return
