"""
Coverage-guided add-on (thorough tier, optional):  python -m vt.fuzz <ID> <runs> <seed> <outfile>

libFuzzer (atheris) mutates a byte string that the property's own structured decoder `from_bytes(FuzzedDataProvider)` turns
into a case dict, with Python-level coverage feedback from the torchtt modules (instrumented on import). (Decoding through
Hypothesis' `fuzz_one_input` was tried first and dropped: with this Hypothesis version it never produced a negative value for
`integers(-n, n-1)` and rejected 80% of random inputs, so a mutant caught by the random tier was missed.) The oracle is the same execute() as in the random tiers. On the first failing case the case is
written to <outfile> and the process exits. No coverage gradient exists through torch's kernels, so this only helps for
structure-driven branches (index grammar, broadcasting alignments, the rejection catalogue).
"""
import os
import sys
import json

HERE = os.path.dirname(os.path.abspath(__file__))
VERIF = os.path.dirname(HERE)
sys.path.insert(0, VERIF)
sys.path.insert(0, os.path.join(VERIF, ".deps"))


def main():
    pid, runs, seed, outfile = sys.argv[1].upper(), int(sys.argv[2]), int(sys.argv[3]), sys.argv[4]
    import atheris
    import warnings
    warnings.simplefilter("ignore")
    from vt import core
    with atheris.instrument_imports(include=["torchtt"]):
        T = core.tt()
    import importlib
    from hypothesis import given, settings, HealthCheck
    from vt import run as runner
    prop = importlib.import_module("vt.props.%s" % pid.lower())
    known = runner.load_known()
    state = {"n": 0, "nontrivial": 0, "fail": None}

    @settings(database=None, deadline=None, suppress_health_check=list(HealthCheck))
    @given(prop.strategy("thorough"))
    def test(case):
        state["n"] += 1
        v = runner.run_case(prop, case)
        if v.nontrivial:
            state["nontrivial"] += 1
        if not v.ok:
            feats = prop.features(case) if hasattr(prop, "features") else {}
            if runner.match_known(known, pid, feats, v) is None:
                state["fail"] = {"case": core.jsonable(case), "check": v.check, "msg": v.msg[:2000], "bucket": v.bucket}
                finish()
                os._exit(0)

    def finish():
        with open(outfile, "w") as f:
            json.dump({"executions": state["n"], "nontrivial": state["nontrivial"], "fail": state["fail"]}, f)

    calls = [0]

    def one(data):
        calls[0] += 1
        if hasattr(prop, "from_bytes"):
            if len(data) < 16:
                return
            fdp = atheris.FuzzedDataProvider(data)
            try:
                case = prop.from_bytes(fdp)
            except Exception:
                return
            test.hypothesis.inner_test(case)
        else:
            test.hypothesis.fuzz_one_input(data)
        if state["n"] >= runs or calls[0] >= 20 * runs:
            finish()
            os._exit(0)
        if calls[0] % 500 == 0:
            finish()

    corpus = os.path.join(os.path.dirname(outfile), "corpus_%s_%d" % (pid, seed))
    os.makedirs(corpus, exist_ok=True)
    # bootstrap corpus: Hypothesis needs a few hundred bytes to decode one case; libFuzzer starts from empty inputs otherwise
    import random
    rnd = random.Random(seed)
    for i in range(32):
        with open(os.path.join(corpus, "boot_%d" % i), "wb") as f:
            f.write(bytes(rnd.getrandbits(8) for _ in range(rnd.choice([256, 1024, 3000]))))
    atheris.Setup([sys.argv[0], "-seed=%d" % (seed + 1), "-runs=%d" % (runs * 20), "-max_len=4096", "-len_control=0",
                   "-verbosity=0", corpus], one)
    try:
        atheris.Fuzz()
    finally:
        finish()


if __name__ == "__main__":
    main()
