"""
Runner.   python -m vt.run <ID> <quick|thorough> [--replay FILE] [--collect] [--shards N] [--examples N]

Parent: spawns shard processes (each an independent Hypothesis run with its own derived seed),
merges their counters, replays the pinned regression / known-finding cases, writes
evidence/<ID>.json, prints KNOWN-FINDING / VIOLATION lines.
Exit codes: 0 held on everything explored; 1 violation (VIOLATION line printed);
2 harness error / inconclusive (never a VIOLATION line).
"""
import os
import sys
import json
import time
import glob
import shutil
import hashlib
import argparse
import importlib
import subprocess
import traceback

HERE = os.path.dirname(os.path.abspath(__file__))
VERIF = os.path.dirname(HERE)
sys.path.insert(0, VERIF)

NSHARDS_DEFAULT = 16


def load_prop(pid):
    return importlib.import_module("vt.props.%s" % pid.lower())


def load_known():
    path = os.path.join(VERIF, "known_findings.json")
    if not os.path.exists(path):
        return []
    with open(path) as f:
        return json.load(f).get("findings", [])


def match_known(known, pid, feats, verdict):
    """A failing case is a *known finding* iff an entry with status 'known' for this property
    matches its features (all listed key/values equal) and, when given, the failed check name /
    exception bucket."""
    for k in known:
        if k.get("property") != pid or k.get("status") != "known":
            continue
        m = k.get("match", {})
        if "check" in m and verdict.check not in (m["check"] if isinstance(m["check"], list) else [m["check"]]):
            continue
        if "bucket_contains" in m and (verdict.bucket is None or m["bucket_contains"] not in verdict.bucket):
            continue
        fm = m.get("features", {})
        if all((feats.get(a) in b) if isinstance(b, list) else (feats.get(a) == b) for a, b in fm.items()):
            return k
    return None


# ----------------------------------------------------------------------------------------------
# one case


def run_case(prop, case):
    from vt import core
    try:
        return prop.execute(case)
    except core.LibraryException as e:
        return core.Verdict(ok=False, check="library_exception", msg="%s in %s\n%s" % (e, e.bucket, e.tb),
                            bucket=e.bucket)


class Stats:
    def __init__(self):
        self.evals = 0
        self.nontrivial = 0
        self.sigs = set()
        self.classes = {}
        self.worst = 0.0
        self.worst_case = None
        self.samples = []
        self.sample_keys = set()
        self.known = {}
        self.libexc = {}
        self.collected = {}

    def record(self, case, v, sig):
        self.evals += 1
        for c in v.classes:
            self.classes[c] = self.classes.get(c, 0) + 1
        if v.nontrivial:
            self.nontrivial += 1
            self.sigs.add(sig)
        if v.ratio is not None and v.ratio == v.ratio and v.ratio != float("inf") and v.ratio > self.worst and v.ok:
            self.worst = v.ratio
            self.worst_case = case
        if v.ok and len(self.samples) < 12:
            key = tuple(sorted(v.classes))[:6]
            if (v.nontrivial and key not in self.sample_keys) or len(self.samples) < 2:
                self.sample_keys.add(key)
                self.samples.append({"case": case, "nontrivial": v.nontrivial, "classes": v.classes,
                                     "ratio": v.ratio})

    def dump(self):
        return {"evals": self.evals, "nontrivial": self.nontrivial, "sigs": sorted(self.sigs),
                "classes": self.classes, "worst": self.worst, "worst_case": self.worst_case,
                "samples": self.samples, "known": self.known, "libexc": self.libexc,
                "collected": self.collected}


class CaseTimeout(BaseException):
    """a single case ran longer than the per-case cap (raised from a SIGALRM handler)"""


class Violation(Exception):
    pass


def worker(args):
    from vt import core
    import hypothesis
    from hypothesis import given, settings, HealthCheck, Phase, seed

    pid = args.id
    prop = load_prop(pid)
    known = load_known()
    st = Stats()
    fail = {}
    out = {"shard": args.shard, "status": "ok"}
    journal = os.path.join(args.workdir, "journal_%d.json" % args.shard) if getattr(prop, "JOURNAL", False) else None

    case_cap = int(getattr(prop, "CASE_TIMEOUT", {"quick": 300, "thorough": 600}).get(args.tier, 300))

    def _alarm(signum, frame):
        raise CaseTimeout()

    try:
        import signal
        signal.signal(signal.SIGALRM, _alarm)
        have_alarm = True
    except Exception:
        have_alarm = False

    def body(case):
        if have_alarm:
            signal.alarm(case_cap)
        try:
            return body_inner(case)
        except CaseTimeout:
            # the library did not return: remember the case; the parent re-runs it alone before calling it a violation
            fail["timeout_case"] = case
            raise
        finally:
            if have_alarm:
                signal.alarm(0)

    def body_inner(case):
        sig = core.case_signature(case)
        if journal:
            with open(journal, "w") as f:
                json.dump(case, f)
                f.flush()
                os.fsync(f.fileno())
        v = run_case(prop, case)
        st.record(case, v, sig)
        if v.bucket:
            st.libexc[v.bucket] = st.libexc.get(v.bucket, 0) + 1
        if not v.ok:
            feats = prop.features(case) if hasattr(prop, "features") else {}
            kf = match_known(known, pid, feats, v)
            if kf is not None:
                st.known[kf["id"]] = st.known.get(kf["id"], 0) + 1
                return
            if args.collect:
                key = "%s|%s" % (v.check, v.bucket)
                e = st.collected.setdefault(key, {"count": 0, "case": case, "msg": v.msg[:600]})
                e["count"] += 1
                if len(json.dumps(case)) < len(json.dumps(e["case"])):
                    e["case"] = case
                    e["msg"] = v.msg[:600]
                return
            fail["case"] = case
            fail["verdict"] = v
            raise Violation(v.msg)

    # ---- exhaustive small-scope enumeration (thorough tier, properties that define enumerate_cases) -------------
    enum_done = 0
    enum_fail = None
    if args.tier == "thorough" and hasattr(prop, "enumerate_cases") and not args.collect:
        cases = prop.enumerate_cases()
        for case in cases[args.shard::max(1, args.nshards)]:
            enum_done += 1
            try:
                body(case)
            except Violation:
                enum_fail = True
                break
    out["enumerated"] = enum_done
    if enum_fail:
        v = fail["verdict"]
        out.update({"status": "violation", "fail_case": fail["case"], "fail_check": v.check, "fail_msg": v.msg[:3000],
                    "fail_bucket": v.bucket, "wall": 0.0, "stats": st.dump()})
        tmp = os.path.join(args.workdir, "shard_%d.json.tmp" % args.shard)
        with open(tmp, "w") as f:
            json.dump(core.jsonable(out), f)
        os.replace(tmp, os.path.join(args.workdir, "shard_%d.json" % args.shard))
        return 0

    phases = [Phase.generate]
    if args.shrink:
        phases.append(Phase.shrink)
    # large shards are run as rounds of at most CHUNK examples, each a fresh Hypothesis run with a seed derived from the
    # shard seed (bounds Hypothesis' bookkeeping of seen examples and re-draws its internal generation parameters)
    CHUNK = 20000
    rounds = []
    left = args.examples
    while left > 0:
        rounds.append(min(CHUNK, left))
        left -= rounds[-1]
    t0 = time.time()
    try:
        for ri, nex in enumerate(rounds):
            sett = settings(max_examples=nex, database=None, deadline=None, derandomize=False,
                            report_multiple_bugs=False, phases=phases, print_blob=False,
                            suppress_health_check=list(HealthCheck), verbosity=hypothesis.Verbosity.quiet)
            test = seed(args.seed if ri == 0 else args.seed * 1000003 + ri)(sett(given(prop.strategy(args.tier))(body)))
            test()
    except CaseTimeout:
        out["status"] = "case_timeout"
        out["fail_case"] = fail.get("timeout_case")
        out["case_cap"] = case_cap
    except Violation:
        v = fail["verdict"]
        out["status"] = "violation"
        out["fail_case"] = fail["case"]
        out["fail_check"] = v.check
        out["fail_msg"] = v.msg[:3000]
        out["fail_bucket"] = v.bucket
    except BaseException as e:  # harness error (generator, oracle or hypothesis itself)
        out["status"] = "harness_error"
        out["error"] = "".join(traceback.format_exception(type(e), e, e.__traceback__))[-4000:]
    out["wall"] = time.time() - t0
    out["stats"] = st.dump()
    tmp = os.path.join(args.workdir, "shard_%d.json.tmp" % args.shard)
    with open(tmp, "w") as f:
        json.dump(core.jsonable(out), f)
    os.replace(tmp, os.path.join(args.workdir, "shard_%d.json" % args.shard))
    return 0


# ----------------------------------------------------------------------------------------------
# replay of one file


def replay_file(prop, pid, path, known):
    from vt import core
    with open(path) as f:
        data = json.load(f)
    case = data["case"] if isinstance(data, dict) and "case" in data and "property" in data else data
    v = run_case(prop, case)
    feats = prop.features(case) if hasattr(prop, "features") else {}
    kf = None if v.ok else match_known(known, pid, feats, v)
    return case, v, kf


def write_replay(pid, case, check, msg, bucket):
    from vt import core
    rdir = os.environ.get("VERIF_REPLAY_DIR") or os.path.join(VERIF, "replays")
    os.makedirs(rdir, exist_ok=True)
    blob = json.dumps(core.jsonable(case), sort_keys=True)
    h = hashlib.sha1(blob.encode()).hexdigest()[:10]
    name = "%s-%s-%s.json" % (pid, (check or "fail").replace("/", "_")[:40], h)
    path = os.path.join(rdir, name)
    with open(path, "w") as f:
        json.dump({"property": pid, "check": check, "bucket": bucket, "msg": msg, "case": core.jsonable(case)}, f,
                  indent=1)
    return os.path.relpath(path, VERIF)


# ----------------------------------------------------------------------------------------------
# parent


def parent(args):
    from vt import core
    pid = args.id
    tier = args.tier
    t0 = time.time()
    vseed = int(os.environ.get("VERIF_SEED", "1") or "1")
    prop = load_prop(pid)
    known = load_known()
    violations = []
    known_lines = []
    notes = []
    extra_env = {}
    if hasattr(prop, "prepare"):
        try:
            extra_env = prop.prepare(tier) or {}
        except Exception as e:
            print("HARNESS-ERROR: preparation failed (inconclusive): %s" % str(e)[-3000:])
            return 2
        os.environ.update(extra_env)

    if args.replay:
        case, v, kf = replay_file(prop, pid, args.replay, known)
        print("replay %s: ok=%s check=%s ratio=%s classes=%s" % (args.replay, v.ok, v.check, v.ratio, v.classes))
        if v.ok:
            return 0
        print(v.msg)
        if kf is not None:
            print("KNOWN-FINDING: property=%s %s (%s)" % (pid, kf["what"], kf["id"]))
            return 0
        print("VIOLATION property=%s replay=%s" % (pid, args.replay))
        return 1

    # --- 1. regression tier: pinned cases of fixed findings and earlier shrunk failures --------
    reg_files = sorted(glob.glob(os.path.join(VERIF, "regress", pid, "*.json")))
    reg_run = 0
    for path in reg_files:
        case, v, kf = replay_file(prop, pid, path, known)
        reg_run += 1
        if not v.ok:
            if kf is not None:
                continue
            violations.append((os.path.relpath(path, VERIF), v.check, v.msg))
    # --- 2. known findings: pinned representative must still be the listed failure --------------
    for k in known:
        if k.get("property") != pid or k.get("status") != "known":
            continue
        line = "KNOWN-FINDING: property=%s %s (%s)" % (pid, k["what"], k["id"])
        pc = k.get("pinned_case")
        if pc is not None:
            v = run_case(prop, pc)
            if v.ok:
                notes.append("known finding %s no longer reproduces on its pinned case" % k["id"])
                continue
            feats = prop.features(pc) if hasattr(prop, "features") else {}
            if match_known(known, pid, feats, v) is None:
                rp = write_replay(pid, pc, v.check, v.msg, v.bucket)
                violations.append((rp, v.check, "pinned case of %s fails differently: %s" % (k["id"], v.msg)))
                continue
        known_lines.append(line)

    # --- 3. generated search, sharded -------------------------------------------------------------
    scale = float(os.environ.get("VERIF_BUDGET_SCALE", "1") or "1")      # development aid: shrink budgets for a dry run
    budget = args.examples or max(16, int(prop.BUDGET[tier] * scale))
    nsh = args.shards or getattr(prop, "SHARDS", NSHARDS_DEFAULT)
    nsh = max(1, min(nsh, budget))
    per = (budget + nsh - 1) // nsh
    shrink = getattr(prop, "SHRINK", {"quick": True, "thorough": True}).get(tier, True)
    workdir = os.path.join(VERIF, ".work", "%s-%s-%d" % (pid, tier, os.getpid()))
    os.makedirs(workdir, exist_ok=True)
    env = dict(os.environ)
    env.setdefault("PYTHONHASHSEED", "0")
    env["OMP_NUM_THREADS"] = "1"
    env["MKL_NUM_THREADS"] = "1"
    env.update(extra_env)
    procs = []
    for s in range(nsh):
        cmd = [sys.executable, "-m", "vt.run", pid, tier, "--worker", "--shard", str(s), "--seed",
               str(vseed * 1000003 + s), "--examples", str(per), "--workdir", workdir, "--nshards", str(nsh)]
        if shrink:
            cmd.append("--shrink")
        if args.collect:
            cmd.append("--collect")
        log = open(os.path.join(workdir, "log_%d.txt" % s), "w")
        procs.append((s, subprocess.Popen(cmd, cwd=VERIF, env=env, stdout=log, stderr=subprocess.STDOUT), log))
    cap = getattr(prop, "TIMEOUT", {"quick": 1500, "thorough": 6 * 3600})[tier]
    deadline = time.time() + cap
    timed_out = []
    for s, p, log in procs:
        try:
            p.wait(timeout=max(1, deadline - time.time()))
        except subprocess.TimeoutExpired:
            p.kill()
            p.wait()
            timed_out.append(s)
        log.close()

    merged = Stats()
    sigs = set()
    harness_errors = []
    enumerated = 0
    for s, p, _ in procs:
        path = os.path.join(workdir, "shard_%d.json" % s)
        if not os.path.exists(path):
            jpath = os.path.join(workdir, "journal_%d.json" % s)
            if s in timed_out:
                harness_errors.append("shard %d hit the hard cap of %ds (inconclusive)" % (s, cap))
            elif os.path.exists(jpath) and p.returncode not in (0, None):
                with open(jpath) as f:
                    case = json.load(f)
                msg = "process died with return code %s while executing this case" % p.returncode
                feats = prop.features(case) if hasattr(prop, "features") else {}
                v = core.Verdict(ok=False, check="process_killed", msg=msg, bucket="rc%s" % p.returncode)
                kf = match_known(known, pid, feats, v)
                if kf is not None:
                    merged.known[kf["id"]] = merged.known.get(kf["id"], 0) + 1
                else:
                    rp = write_replay(pid, case, "process_killed", msg, None)
                    violations.append((rp, "process_killed", msg))
            else:
                try:
                    with open(os.path.join(workdir, "log_%d.txt" % s)) as f:
                        tail = f.read()[-2000:]
                except Exception:
                    tail = ""
                harness_errors.append("shard %d produced no result (rc=%s)\n%s" % (s, p.returncode, tail))
            continue
        with open(path) as f:
            o = json.load(f)
        enumerated += o.get("enumerated", 0)
        stt = o["stats"]
        merged.evals += stt["evals"]
        merged.nontrivial += stt["nontrivial"]
        sigs.update(stt["sigs"])
        for k2, v2 in stt["classes"].items():
            merged.classes[k2] = merged.classes.get(k2, 0) + v2
        for k2, v2 in stt["known"].items():
            merged.known[k2] = merged.known.get(k2, 0) + v2
        for k2, v2 in stt["libexc"].items():
            merged.libexc[k2] = merged.libexc.get(k2, 0) + v2
        for k2, v2 in stt["collected"].items():
            e = merged.collected.setdefault(k2, {"count": 0, "case": v2["case"], "msg": v2["msg"]})
            e["count"] += v2["count"]
            if len(json.dumps(v2["case"])) < len(json.dumps(e["case"])):
                e["case"], e["msg"] = v2["case"], v2["msg"]
        if stt["worst"] > merged.worst:
            merged.worst = stt["worst"]
            merged.worst_case = stt["worst_case"]
        merged.samples += stt["samples"]
        if o["status"] == "case_timeout" and o.get("fail_case") is not None:
            # a case did not return within the per-case cap while 15 other shards were running: run it once more, alone,
            # with twice the cap. Only if it does not return then either is it reported (the routines promise a result);
            # otherwise the first overrun is put down to load (a note, not a verdict).
            cap2 = 2 * int(o.get("case_cap", 300))
            tmpf = os.path.join(workdir, "timeout_case_%d.json" % s)
            with open(tmpf, "w") as f:
                json.dump(core.jsonable(o["fail_case"]), f)
            try:
                subprocess.run([sys.executable, "-m", "vt.run", pid, tier, "--replay", tmpf], cwd=VERIF, env=env,
                               stdout=subprocess.DEVNULL, stderr=subprocess.DEVNULL, timeout=cap2)
                notes.append("shard %d: one case exceeded the per-case cap of %ss under load but returned when re-run alone" % (s, o.get("case_cap")))
            except subprocess.TimeoutExpired:
                msg = "the call did not return within %d s (re-run alone; first attempt cut after %s s)" % (cap2, o.get("case_cap"))
                feats = prop.features(o["fail_case"]) if hasattr(prop, "features") else {}
                v = core.Verdict(ok=False, check="did_not_return", msg=msg, bucket="timeout")
                kf = match_known(known, pid, feats, v)
                if kf is not None:
                    merged.known[kf["id"]] = merged.known.get(kf["id"], 0) + 1
                else:
                    rp = write_replay(pid, o["fail_case"], "did_not_return", msg, None)
                    violations.append((rp, "did_not_return", msg))
        if o["status"] == "violation":
            rp = write_replay(pid, o["fail_case"], o["fail_check"], o["fail_msg"], o.get("fail_bucket"))
            violations.append((rp, o["fail_check"], o["fail_msg"]))
        elif o["status"] == "harness_error":
            harness_errors.append("shard %d: %s" % (s, o["error"]))

    # --- 4. coverage-guided stage (thorough tier; properties that define FUZZ; needs atheris in /verif/.deps) ---------
    fuzz_info = None
    fz = int(getattr(prop, "FUZZ", {}).get(tier, 0) * scale) if not args.collect and not args.examples else 0
    if fz and not violations:
        if not os.path.isdir(os.path.join(VERIF, ".deps", "atheris")):
            notes.append("coverage-guided stage skipped: atheris is not installed in /verif/.deps (setup_cmd installs it offline)")
        else:
            nfz = 8
            fprocs = []
            for j in range(nfz):
                outf = os.path.join(workdir, "fuzz_%d.json" % j)
                cmd = [sys.executable, "-m", "vt.fuzz", pid, str(fz // nfz), str(vseed * 101 + j), outf]
                fprocs.append((outf, subprocess.Popen(cmd, cwd=VERIF, env=env, stdout=subprocess.DEVNULL, stderr=subprocess.DEVNULL)))
            fuzz_info = {"engine": "atheris/libFuzzer with the property's structured byte decoder (from_bytes), coverage feedback from torchtt/*",
                         "processes": nfz, "executions": 0, "nontrivial_executions": 0}
            for outf, p in fprocs:
                try:
                    p.wait(timeout=3600)
                except subprocess.TimeoutExpired:
                    p.kill()
                if os.path.exists(outf):
                    with open(outf) as f:
                        o = json.load(f)
                    fuzz_info["executions"] += o["executions"]
                    fuzz_info["nontrivial_executions"] += o["nontrivial"]
                    if o.get("fail"):
                        rp = write_replay(pid, o["fail"]["case"], o["fail"]["check"], o["fail"]["msg"], o["fail"].get("bucket"))
                        violations.append((rp, o["fail"]["check"], "[coverage-guided stage] " + o["fail"]["msg"]))

    if not args.keep:
        shutil.rmtree(workdir, ignore_errors=True)
        try:
            os.rmdir(os.path.join(VERIF, ".work"))
        except OSError:
            pass

    # --- vacuity guard --------------------------------------------------------------------------
    # FLOORS hold the *typical* count of an interesting class at the quick budget; the guard fires when a class
    # drops below 30% of that (Hypothesis' sampling is far from uniform, so tighter floors would be flaky).
    floors = getattr(prop, "FLOORS", {}).get("quick", {}) if not args.examples else {}
    vac = []
    if not violations and not harness_errors:
        for cls, mn in floors.items():
            mn = int(0.3 * mn)
            if merged.classes.get(cls, 0) < mn:
                vac.append("class %r seen %d times, floor %d" % (cls, merged.classes.get(cls, 0), mn))

    # --- evidence ---------------------------------------------------------------------------------
    # diverse samples: prefer non-trivial ones with different class sets
    seen = set()
    samples = []
    for smp in sorted(merged.samples, key=lambda x: (not x["nontrivial"],)):
        key = tuple(smp["classes"][:5])
        if key in seen:
            continue
        seen.add(key)
        samples.append(smp)
        if len(samples) >= 8:
            break
    wall = time.time() - t0
    ev = {
        "property_id": pid, "tier": tier, "seed": vseed, "level": "exploration",
        "coverage": {
            "evaluations": merged.evals + reg_run + (fuzz_info["executions"] if fuzz_info else 0),
            "distinct_nontrivial": len(sigs),
            "rule": prop.RULE,
            "samples": samples,
            "nontrivial_evaluations": merged.nontrivial,
            "classes": dict(sorted(merged.classes.items())),
            "worst_ratio_error_over_allowance": merged.worst,
            "worst_ratio_case": merged.worst_case,
            "regression_cases_replayed": reg_run,
            "known_finding_hits": merged.known,
            "library_exceptions": merged.libexc,
            "shards": nsh, "examples_per_shard": per,
            "exhaustive": False,
            "coverage_guided_stage": fuzz_info,
            "small_scope_enumeration": {"cases_enumerated_completely": enumerated,
                                        "what": getattr(prop, "ENUM_DOC", "")} if enumerated else None,
            "notes": notes + vac,
        },
        "assumptions": getattr(prop, "ASSUMPTIONS", []),
        "wall_s": round(wall, 2),
        "violations": len(violations),
    }
    edir = os.environ.get("VERIF_EVIDENCE_DIR") or os.path.join(VERIF, "evidence")
    os.makedirs(edir, exist_ok=True)
    with open(os.path.join(edir, "%s.json" % pid), "w") as f:
        json.dump(core.jsonable(ev), f, indent=1)

    print("%s %s seed=%d: %d evaluations (%d non-trivial, %d distinct non-trivial), worst error/allowance %.3g, "
          "%d regression cases, %.1fs" % (pid, tier, vseed, merged.evals, merged.nontrivial, len(sigs), merged.worst,
                                           reg_run, wall))
    if args.collect:
        for k2, v2 in sorted(merged.collected.items(), key=lambda kv: -kv[1]["count"]):
            print("COLLECTED %6d  %s\n    case=%s\n    %s" % (v2["count"], k2, json.dumps(v2["case"]),
                                                             v2["msg"].replace("\n", "\n    ")))
    for n in notes:
        print("note:", n)
    for line in known_lines:
        print(line)
    if merged.known:
        print("known-finding hits in generated cases:", merged.known)
    if violations:
        for rp, check, msg in violations:
            print("--- violated clause: %s\n%s" % (check, msg[:1500]))
        for rp, check, msg in violations:
            print("VIOLATION property=%s replay=%s" % (pid, rp))
        return 1
    if harness_errors:
        for h in harness_errors:
            print("HARNESS-ERROR:", h[-3000:])
        return 2
    if vac:
        for h in vac:
            print("HARNESS-ERROR (vacuity guard):", h)
        return 2
    return 0


def main():
    import warnings
    warnings.simplefilter("ignore")
    ap = argparse.ArgumentParser()
    ap.add_argument("id")
    ap.add_argument("tier", choices=["quick", "thorough"])
    ap.add_argument("--replay")
    ap.add_argument("--collect", action="store_true")
    ap.add_argument("--keep", action="store_true")
    ap.add_argument("--shards", type=int, default=0)
    ap.add_argument("--examples", type=int, default=0)
    ap.add_argument("--worker", action="store_true")
    ap.add_argument("--shard", type=int, default=0)
    ap.add_argument("--nshards", type=int, default=1)
    ap.add_argument("--seed", type=int, default=1)
    ap.add_argument("--workdir")
    ap.add_argument("--shrink", action="store_true")
    args = ap.parse_args()
    args.id = args.id.upper()
    try:
        if args.worker:
            sys.exit(worker(args))
        sys.exit(parent(args))
    except SystemExit:
        raise
    except BaseException:
        traceback.print_exc()
        print("HARNESS-ERROR: runner failed")
        sys.exit(2)


if __name__ == "__main__":
    main()
